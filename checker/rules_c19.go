package main

import (
	"fmt"
	"go/token"
	"go/types"
	"sort"
	"strings"

	"golang.org/x/tools/go/ssa"
)

func init() {
	register("C19", &propDef{
		run: runC19,
		explanation: "Decides: R1 the public key the file signer reports derives from the loaded private key or is compared with privKey.GetPublic() before it is stored (the pub_key field of the file is not authenticated); " +
			"R2 (no panic) every modulo/division by a length and every slice with a non-constant bound in the key-derivation helpers is dominated by the corresponding length test; " +
			"R3 the three address derivations (types.KeyAddress, the file signer's and the noop signer's) are the same function sha256(pub.Raw()) of the key; " +
			"R4 the loader returns a signer only on the success edge of key loading, and the signer's key fields are written only after every failing check.",
		notDecided:  "Cryptographic strength; behaviour for all passphrases and corruptions; export/import round trip for all keys.",
		assumptions: []string{"libp2p crypto, AES-GCM and argon2 are correct", "go/ssa"},
	})
}

const filePkg = rootPath + "/pkg/signer/file"

func runC19(c *Check) {
	p := c.Mod(ModRoot)
	c.Doc("C19-R1", "VP+GA: reported public key belongs to the loaded private key.")
	c.Doc("C19-R2", "GA: no division/modulo by a possibly-zero length, no slice beyond a checked length, in the key-derivation helpers.")
	c.Doc("C19-R3", "VP: one address derivation.")
	c.Doc("C19-R4", "GA: no signer on a failing path; key fields written last.")
	var lk *ssa.Function
	// the key loader: the method the constructor-from-file calls that opens (decrypts) the key
	// (looking through the package's own helpers: the constructor may delegate the opening)
	var loaderCallees []*ssa.Function
	{
		seenF := map[*ssa.Function]bool{}
		var walk func(fn *ssa.Function, d int)
		walk = func(fn *ssa.Function, d int) {
			for _, cal := range staticCalleesOf(p, fn) {
				if seenF[cal] || fnPkg(cal) == nil || fnPkg(cal).Pkg.Path() != filePkg {
					continue
				}
				seenF[cal] = true
				loaderCallees = append(loaderCallees, cal)
				if d < 2 && cal.Signature.Recv() == nil {
					walk(cal, d+1)
				}
			}
		}
		walk(p.MustFunc(filePkg+".LoadFileSystemSigner"), 0)
	}
	for _, cal := range loaderCallees {
		if cal.Signature.Recv() != nil && corrResult(cal) >= 0 {
			opens := callsNamed(cal, func(n string) bool { return n == "(crypto/cipher.AEAD).Open" })
			if opens || lk == nil {
				lk = cal
			}
			if opens {
				break
			}
		}
	}
	if lk == nil {
		c.Unk("C19-R1", "key-loader", "", "", "anchor lost: the method LoadFileSystemSigner calls to load the keys")
		return
	}
	{
		g := BuildECFG(p, lk, ExpandOpts{MaxDepth: 0})
		c.NoteGraph(g)
		fn := fnName(lk)
		pubStores := g.Select(fieldStoreTo(g, "publicKey"))
		privStores := g.Select(fieldStoreTo(g, "privateKey"))
		if len(pubStores) == 0 || len(privStores) == 0 {
			c.Unk("C19-R1", "loadKeys ⟂ key-stores", fn, "", "anchor lost: loadKeys does not store the key fields")
		}
		for _, ps := range pubStores {
			v := TermOf(ps.In.(*ssa.Store).Val, ps.Ctx)
			var priv *Term
			if len(privStores) > 0 {
				priv = TermOf(privStores[0].In.(*ssa.Store).Val, privStores[0].Ctx)
			}
			derived := priv != nil && v.Contains(func(t *Term) bool {
				return t.Op == "invoke" && strings.HasSuffix(t.Name, "crypto.PrivKey).GetPublic") && t.Args[0].String() == priv.String()
			})
			compared := false
			for _, f := range g.NecessaryEdges(nodeSet([]*Node{ps})) {
				t := f.Cond
				if f.Pol && t.Op == "invoke" && strings.HasSuffix(t.Name, ".Equals") && priv != nil {
					s := t.String()
					if strings.Contains(s, "GetPublic("+priv.String()+")") && strings.Contains(s, v.String()) {
						compared = true
					}
				}
			}
			if derived || compared {
				c.OK("C19-R1", "loadKeys ⟂ public-key-matches-private-key", fn, p.InstrPos(ps.In), fmt.Sprintf("derived from the private key: %v; compared with privKey.GetPublic(): %v", derived, compared), true)
			} else {
				c.Bad("C19-R1", "loadKeys ⟂ public-key-matches-private-key", fn, p.InstrPos(ps.In), "the public key the signer reports is decoded from the unauthenticated pub_key field of the file and never related to the decrypted private key ("+trunc(v.String(), 100)+"): with that field altered the signer loads, and its signatures do not verify under the key (and address) it reports", nil)
			}
		}
		// R4: key fields written only after every failing check
		errExits := func(n *Node) bool { return g.AnyExit()(n) && g.ExitClass(n) == rcA }
		path := g.PathAvoiding(append(append([]*Node{}, pubStores...), privStores...), errExits, nil)
		c.Decide("C19-R4", "loadKeys ⟂ keys-stored-after-all-checks", fn, posOf(g, nodeSet(privStores)), "no error return is reachable after the key fields were written",
			"the key fields are written before a check that can still fail: a failed load leaves a half-initialised signer", g, path)
	}
	// loader returns a signer only if loadKeys succeeded
	ld := p.MustFunc(filePkg + ".LoadFileSystemSigner")
	{
		// the package's own helpers are looked through (the opening may be delegated); the key
		// loader itself stays a leaf whose result is tested
		lopts := ownPkgOpts(filePkg, 2)
		inner := lopts.Stop
		lopts.Stop = func(f *ssa.Function) bool { return f == lk || (inner != nil && inner(f)) }
		g := BuildECFG(p, ld, lopts)
		c.NoteGraph(g)
		ok := g.Select(ErrNilEdge(func(t *Term) bool { cv, ok := t.V.(*ssa.Call); return ok && cv.Common().StaticCallee() == lk }))
		var withSigner []*Node
		for _, x := range g.Exits {
			if x.Ctx.Depth != 0 {
				continue
			}
			ret := x.In.(*ssa.Return)
			v := spilledResult(ret, 0)
			if k, isC := v.(*ssa.Const); isC && k.Value == nil {
				continue
			}
			withSigner = append(withSigner, x)
		}
		if len(ok) == 0 || len(withSigner) == 0 {
			c.Unk("C19-R4", "LoadFileSystemSigner ⟂ signer-only-on-success", fnName(ld), "", "anchor lost: loadKeys result check / signer return")
		} else {
			c.Decide("C19-R4", "LoadFileSystemSigner ⟂ signer-only-on-success", fnName(ld), p.InstrPos(withSigner[0].In), "a signer is returned only after loadKeys succeeded",
				"a signer can be returned although loading its keys failed (wrong passphrase, corrupted file)", g, g.PathAvoiding([]*Node{g.Entry}, nodeSet(withSigner), nodeSet(ok)))
		}
	}
	// ---- R2: key-derivation helpers and everything loadKeys/saveKeys call in the package
	helpers := map[*ssa.Function]bool{}
	var keyFns []*ssa.Function
	keyFns = append(keyFns, lk)
	if cf := p.Func(filePkg + ".CreateFileSystemSigner"); cf != nil {
		for _, cal := range staticCalleesOf(p, cf) {
			if cal.Signature.Recv() != nil {
				keyFns = append(keyFns, cal)
			}
		}
	}
	for _, fn := range keyFns {
		for _, b := range fn.Blocks {
			for _, in := range b.Instrs {
				if call, ok := in.(*ssa.Call); ok {
					if cal := call.Common().StaticCallee(); cal != nil && p.InRepo(cal) && fnPkg(cal).Pkg.Path() == filePkg {
						helpers[cal] = true
					}
				}
				if d, ok := in.(*ssa.Defer); ok {
					if cal := d.Common().StaticCallee(); cal != nil && p.InRepo(cal) && fnPkg(cal).Pkg.Path() == filePkg {
						helpers[cal] = true
					}
				}
			}
		}
	}
	nOps := 0
	for fn := range helpers {
		g := BuildECFG(p, fn, ExpandOpts{MaxDepth: 0})
		c.NoteGraph(g)
		for _, n := range g.Select(func(n *Node) bool {
			switch x := n.In.(type) {
			case *ssa.BinOp:
				if x.Op != token.REM && x.Op != token.QUO {
					return false
				}
				_, isConst := x.Y.(*ssa.Const)
				return !isConst
			case *ssa.Slice:
				if x.High == nil {
					return false
				}
				_, isConst := x.High.(*ssa.Const)
				return !isConst
			}
			return false
		}) {
			nOps++
			facts := g.NecessaryEdges(nodeSet([]*Node{n}))
			switch x := n.In.(type) {
			case *ssa.BinOp:
				d := TermOf(x.Y, n.Ctx)
				guarded := false
				for _, f := range facts {
					t := f.Cond
					if t.Op != "bin" {
						continue
					}
					a, b := t.Args[0].String(), t.Args[1].String()
					nonZero := (a == d.String() && b == "0" && ((t.Name == "==" && !f.Pol) || (t.Name == "!=" && f.Pol) || (t.Name == ">" && f.Pol))) ||
						(b == d.String() && a == "0" && ((t.Name == "==" && !f.Pol) || (t.Name == "!=" && f.Pol) || (t.Name == "<" && f.Pol)))
					if nonZero {
						guarded = true
					}
				}
				inst := fnShort(fn) + " ⟂ " + x.Op.String() + " " + trunc(d.String(), 40)
				if guarded {
					c.OK("C19-R2", inst, fnName(fn), p.InstrPos(x), "divisor is tested non-zero on every path", true)
				} else {
					c.Bad("C19-R2", inst, fnName(fn), p.InstrPos(x), "integer "+x.Op.String()+" by "+d.String()+" without a dominating non-zero test: with an empty passphrase on a salt-less (legacy) key file this panics instead of failing cleanly", nil)
				}
			case *ssa.Slice:
				hi := TermOf(x.High, n.Ctx)
				base := TermOf(x.X, n.Ctx)
				guarded := false
				for _, f := range facts {
					t := f.Cond
					if t.Op != "bin" {
						continue
					}
					a, b := t.Args[0].String(), t.Args[1].String()
					if a == "len("+base.String()+")" && b == hi.String() && ((t.Name == ">=" && f.Pol) || (t.Name == "<" && !f.Pol)) {
						guarded = true
					}
				}
				inst := fnShort(fn) + " ⟂ slice[:" + trunc(hi.String(), 30) + "]"
				if guarded {
					c.OK("C19-R2", inst, fnName(fn), p.InstrPos(x), "upper bound is tested against the length on every path", true)
				} else {
					c.Bad("C19-R2", inst, fnName(fn), p.InstrPos(x), "slice with a non-constant upper bound "+hi.String()+" without a dominating length test", nil)
				}
			}
		}
	}
	if len(helpers) < 2 {
		c.Unk("C19-R2", "helpers", "", "", fmt.Sprintf("anchor lost: %d key-derivation helpers", len(helpers)))
	}
	if nOps == 0 {
		c.OK("C19-R2", "helpers ⟂ no-unchecked-arithmetic", "", "", "no division/modulo by a variable and no variable slice bound in the helpers", false)
	}
	// ---- R3
	var derivFns []*ssa.Function
	for _, pkgPath := range []string{rootPath + "/types", filePkg, rootPath + "/pkg/signer/noop"} {
		found := false
		for _, f := range funcsCalling(p, pkgPath, func(n string) bool { return n == "crypto/sha256.Sum256" }) {
			// a function from a public key to bytes: a parameter, or (the derivation written out in
			// the signer's method) the receiver's key field
			isDeriv := len(f.Params) == 1 && strings.HasSuffix(f.Params[0].Type().String(), "crypto.PubKey")
			if !isDeriv {
				for _, b := range f.Blocks {
					for _, in := range b.Instrs {
						if call, ok := in.(*ssa.Call); ok && commonName(call.Common()) == "crypto/sha256.Sum256" {
							at := TermOf(call.Common().Args[0], &Ctx{Fn: f})
							if strings.Contains(at.String(), "core/crypto.") && strings.Contains(at.String(), ").Raw(") && strings.HasSuffix(at.String(), "#0") {
								isDeriv = true
							}
						}
					}
				}
			}
			if isDeriv {
				derivFns = append(derivFns, f)
				found = true
			}
		}
		if !found {
			c.Unk("C19-R3", "derivation ⟂ "+shortName(pkgPath), "", "", "anchor lost: no address derivation (PubKey -> sha256) in this package")
		}
	}
	shapes := map[string]string{}
	for _, fn := range derivFns {
		d := shortName(pkgOf(fn)) + " address derivation"
		// shape: sha256.Sum256 applied to Raw(param)#0, result sliced whole
		var shape []string
		okRaw, okSum, okSlice := false, false, false
		for _, b := range fn.Blocks {
			for _, in := range b.Instrs {
				switch x := in.(type) {
				case *ssa.Call:
					t := TermOf(x, &Ctx{Fn: fn})
					if t.Op == "invoke" && strings.Contains(t.Name, "core/crypto.") && strings.HasSuffix(t.Name, ").Raw") && (t.Args[0].Op == "param" || t.Args[0].Op == "field") {
						okRaw = true
					}
					if t.IsCall("crypto/sha256.Sum256") && strings.Contains(t.Args[0].String(), ").Raw(") && strings.HasSuffix(t.Args[0].String(), "#0") {
						okSum = true
					}
					if t.Op == "call" && !t.IsCall("crypto/sha256.Sum256") && !strings.HasPrefix(t.Name, "(*sync.") {
						shape = append(shape, t.Name)
					}
				case *ssa.Slice:
					if x.Low == nil && x.High == nil {
						okSlice = true
					}
				}
			}
		}
		key := fmt.Sprintf("raw=%v sum256=%v whole=%v other=%v", okRaw, okSum, okSlice, shape)
		shapes[d] = key
		if okRaw && okSum && okSlice && len(shape) == 0 {
			c.OK("C19-R3", "derivation ⟂ "+d, fnName(fn), p.Pos(fn.Pos()), "address = sha256.Sum256(pub.Raw())[:]", true)
		} else {
			c.Bad("C19-R3", "derivation ⟂ "+d, fnName(fn), p.Pos(fn.Pos()), "address derivation is not sha256.Sum256(pub.Raw())[:] ("+key+"): the address a signer reports differs from the one full nodes derive from its public key", nil)
		}
	}
	// ---- R6: the key derivation is a function of passphrase, salt and constants only
	c.Doc("C19-R6", "VP: the key-derivation helpers (the functions of the key-file code that map a passphrase to a key) read nothing but their parameters and constants: no runtime, OS, clock or random input and no package variable, so the key derived for a file does not depend on where or when it is loaded.")
	{
		nk := 0
		var hs []*ssa.Function
		for fn := range helpers {
			hs = append(hs, fn)
		}
		sort.Slice(hs, func(i, j int) bool { return fnName(hs[i]) < fnName(hs[j]) })
		for _, fn := range hs {
			if resultTypes(fn) != "[]byte" || !hasParamOfType(fn, "[]byte") || fn.Signature.Recv() != nil {
				continue
			}
			nk++
			var impure []string
			seenF := map[*ssa.Function]bool{}
			var scan func(f *ssa.Function, d int)
			scan = func(f *ssa.Function, d int) {
				if seenF[f] || d > 3 {
					return
				}
				seenF[f] = true
				for _, b := range f.Blocks {
					for _, in := range b.Instrs {
						switch x := in.(type) {
						case *ssa.Call:
							cn := commonName(x.Common())
							for _, pre := range []string{"runtime.", "os.", "time.", "math/rand", "crypto/rand", "syscall.", "(*os.", "os/user."} {
								if strings.HasPrefix(cn, pre) {
									impure = append(impure, cn)
								}
							}
							if cal := x.Common().StaticCallee(); cal != nil && p.InRepo(cal) {
								scan(cal, d+1)
							}
						case *ssa.UnOp:
							if gl, ok := x.X.(*ssa.Global); ok && x.Op == token.MUL {
								impure = append(impure, "package variable "+gl.Name())
							}
						}
					}
				}
			}
			scan(fn, 0)
			sort.Strings(impure)
			inst := fnShort(fn) + " ⟂ depends-on-passphrase-salt-constants-only"
			if len(impure) == 0 {
				c.OK("C19-R6", inst, fnName(fn), p.Pos(fn.Pos()), "no runtime / OS / clock / random input and no package variable is read", true)
			} else {
				c.Bad("C19-R6", inst, fnName(fn), p.Pos(fn.Pos()), "the derived key depends on "+strings.Join(impure, ", ")+": a key file saved in one environment does not open with its passphrase in another", nil)
			}
		}
		if nk == 0 {
			c.Unk("C19-R6", "key-derivation-helpers", "", "", "anchor lost: no passphrase-to-key helper among the functions the key loader and writer call")
		}
		c.MinInstances("C19-R6", 2)
	}
	// ---- R7: AEAD preconditions. cipher.AEAD.Open / Seal panic on a nonce whose length is not
	// NonceSize(); a nonce read from the key file is attacker / corruption controlled.
	c.Doc("C19-R12", "VP: every AEAD Seal/Open in the key-file code writes its output to nil or a freshly made buffer, never into storage that other values may alias (export followed by import preserves the key whatever the capacity of the caller's slice).")
	c.Doc("C19-R7", "GA: every AEAD Open/Seal in the key-file code gets a nonce that was allocated with NonceSize() or whose length was tested against NonceSize() on every path (the library panics otherwise: a truncated key file must fail cleanly).")
	{
		nAead := 0
		for _, fn := range p.Funcs {
			pk := fnPkg(fn)
			if pk == nil || pk.Pkg.Path() != filePkg || fn.Blocks == nil {
				continue
			}
			var g *Graph
			for _, b := range fn.Blocks {
				for _, in := range b.Instrs {
					call, ok := in.(*ssa.Call)
					if !ok || !call.Common().IsInvoke() {
						continue
					}
					cn := commonName(call.Common())
					if cn != "(crypto/cipher.AEAD).Open" && cn != "(crypto/cipher.AEAD).Seal" {
						continue
					}
					if g == nil {
						g = BuildECFG(p, fn, ExpandOpts{MaxDepth: 0})
						c.NoteGraph(g)
					}
					nAead++
					// the destination: nil or a buffer of the call's own — sealing or opening in
					// place overwrites memory other values may be views of (the raw public key of a
					// libp2p key is a view of the raw private key bytes)
					{
						dst := call.Common().Args[0]
						dt := TermOf(dst, &Ctx{Fn: fn})
						own := false
						if k, isK := dst.(*ssa.Const); isK && k.Value == nil {
							own = true
						}
						if _, isMk := dst.(*ssa.MakeSlice); isMk {
							own = true
						}
						if sl, isSl := dst.(*ssa.Slice); isSl {
							if _, isMk := sl.X.(*ssa.MakeSlice); isMk {
								own = true
							}
						}
						dinst := fnShort(fn) + " ⟂ " + cn[strings.LastIndex(cn, ".")+1:] + " destination"
						if own {
							c.OK("C19-R12", dinst, fnName(fn), p.InstrPos(in), "the output goes to a buffer of its own (nil or freshly made)", true)
						} else {
							c.Bad("C19-R12", dinst, fnName(fn), p.InstrPos(in), "the AEAD output is written into existing storage ("+trunc(dt.String(), 60)+"): when that storage has room, the plaintext key bytes are overwritten while other values still view them — the public key written to the file is then ciphertext, the call succeeds and the file can never be loaded", nil)
						}
					}
					nonce := TermOf(call.Common().Args[1], &Ctx{Fn: fn})
					inst := fnShort(fn) + " ⟂ " + cn[strings.LastIndex(cn, ".")+1:] + " nonce " + trunc(nonce.String(), 40)
					fresh := nonce.Op == "make" || strings.HasPrefix(nonce.String(), "make(")
					if fresh && strings.Contains(nonce.String(), "NonceSize") {
						c.OK("C19-R7", inst, fnName(fn), p.InstrPos(in), "the nonce is allocated with NonceSize()", true)
						continue
					}
					guarded := false
					inn := in
					for _, f := range g.NecessaryEdges(func(x *Node) bool { return x.Kind == NInstr && x.In == inn }) {
						t, pol := normFact(f.Cond, f.Pol)
						if t.Op != "bin" || len(t.Args) != 2 {
							continue
						}
						a, b2 := t.Args[0].unconv().String(), t.Args[1].unconv().String()
						isLen := func(x string) bool { return x == "len("+nonce.String()+")" }
						isSize := func(x string) bool { return strings.Contains(x, "AEAD).NonceSize(") }
						if (isLen(a) && isSize(b2)) || (isLen(b2) && isSize(a)) {
							if (t.Name == "==" && pol) || (t.Name == "!=" && !pol) {
								guarded = true
							}
						}
					}
					if guarded {
						c.OK("C19-R7", inst, fnName(fn), p.InstrPos(in), "the nonce length is tested against NonceSize() on every path", true)
					} else {
						c.Bad("C19-R7", inst, fnName(fn), p.InstrPos(in), "the nonce comes from the key file and its length is not tested against NonceSize(): a truncated or corrupted key file makes the AEAD panic instead of failing cleanly", nil)
					}
				}
			}
		}
		if nAead == 0 {
			c.Unk("C19-R7", "AEAD-calls", "", "", "anchor lost: no AEAD Open/Seal in the key-file package")
		}
		c.MinInstances("C19-R7", 4)
	}
	// ---- R8: writer/reader agreement on the key derivation. The loader picks the derivation by
	// whether the stored salt is empty; a writer must therefore derive with Argon2 from a salt that
	// is non-empty by construction and store exactly that salt.
	c.Doc("C19-R8", "CS+VP: every function that seals a key derives the sealing key from a salt allocated with a positive constant length, and stores that same salt in the file (the loader chooses the derivation by the salt being empty or not).")
	{
		nW := 0
		for _, fn := range p.Funcs {
			pk := fnPkg(fn)
			if pk == nil || pk.Pkg.Path() != filePkg || fn.Blocks == nil || !callsNamed(fn, func(n string) bool { return n == "(crypto/cipher.AEAD).Seal" }) {
				continue
			}
			nW++
			ctx := &Ctx{Fn: fn}
			// the salt handed to the derivation
			var kdfSalt *Term
			for _, b := range fn.Blocks {
				for _, in := range b.Instrs {
					call, ok := in.(*ssa.Call)
					if !ok {
						continue
					}
					cal := call.Common().StaticCallee()
					if cal == nil {
						continue
					}
					if commonName(call.Common()) == "golang.org/x/crypto/argon2.IDKey" && len(call.Common().Args) > 1 {
						kdfSalt = TermOf(call.Common().Args[1], ctx)
					} else if p.InRepo(cal) && callsNamed(cal, func(n string) bool { return n == "golang.org/x/crypto/argon2.IDKey" }) {
						// which parameter of the helper is the salt
						for _, b2 := range cal.Blocks {
							for _, in2 := range b2.Instrs {
								if c2, ok := in2.(*ssa.Call); ok && commonName(c2.Common()) == "golang.org/x/crypto/argon2.IDKey" {
									for i, prm := range cal.Params {
										if c2.Common().Args[1] == ssa.Value(prm) && i < len(call.Common().Args) {
											kdfSalt = TermOf(call.Common().Args[i], ctx)
										}
									}
								}
							}
						}
					}
				}
			}
			// the salt stored in the file
			var stored *Term
			for _, b := range fn.Blocks {
				for _, in := range b.Instrs {
					if al, ok := in.(*ssa.Alloc); ok && strings.HasSuffix(al.Type().String(), "file.keyData") {
						if v := structLitField(al, "Salt"); v != nil {
							stored = TermOf(v, ctx)
						}
					}
				}
			}
			inst := fnShort(fn) + " ⟂ sealing-salt fresh, non-empty and stored"
			switch {
			case kdfSalt == nil:
				c.Bad("C19-R8", inst, fnName(fn), p.Pos(fn.Pos()), "the key is sealed without the Argon2 derivation from a salt: the loader cannot tell which derivation to use", nil)
			case stored == nil || stored.String() != kdfSalt.String():
				st := "nothing"
				if stored != nil {
					st = trunc(stored.String(), 60)
				}
				c.Bad("C19-R8", inst, fnName(fn), p.Pos(fn.Pos()), "the salt the key is derived from ("+trunc(kdfSalt.String(), 60)+") is not the salt stored in the file ("+st+"): the file cannot be opened with its passphrase", nil)
			default:
				bad := ""
				for _, leaf := range flattenPhi(kdfSalt) {
					okLeaf := leaf.Op == "make" && len(leaf.Args) > 0 && leaf.Args[0].unconv().Op == "const" && leaf.Args[0].unconv().Name != "0" && !strings.HasPrefix(leaf.Args[0].unconv().Name, "0:")
					// make([]byte, K) with constant K is an array allocation sliced to K
					if ls := leaf.String(); strings.HasPrefix(ls, "new([") && strings.Contains(ls, ":makeslice)") && !strings.HasPrefix(ls, "new([0]") {
						okLeaf = true
					}
					if !okLeaf {
						bad = trunc(leaf.String(), 60)
					}
				}
				if bad == "" {
					c.OK("C19-R8", inst, fnName(fn), p.Pos(fn.Pos()), "salt ← "+trunc(kdfSalt.String(), 60)+", used for the derivation and stored", true)
				} else {
					c.Bad("C19-R8", inst, fnName(fn), p.Pos(fn.Pos()), "the salt can be "+bad+", which may be empty: the key is then sealed under Argon2 of an empty salt while the loader, seeing no salt, takes the legacy derivation — no passphrase opens the file", nil)
				}
			}
		}
		if nW == 0 {
			c.Unk("C19-R8", "sealing-functions", "", "", "anchor lost: no function seals a key")
		}
		c.MinInstances("C19-R8", 2)
	}
	c.Doc("C19-R9", "CT: the key file is written by replacing the whole file (os.WriteFile, os.Create, or OpenFile with O_TRUNC/O_EXCL): an import over a longer file must not leave its tail behind.")
	ruleWritersReplaceWholeFile(c, p, "C19-R9", []string{filePkg}, 1,
		"importing a key over a longer existing key file leaves the old tail after the new JSON object; the import reports success, the old key is destroyed and the new file cannot be loaded")
	// ---- R10: the key file is removed only by the call that wrote it. In the key-file package
	// every os.Remove is reachable only after this call's own write of the file was attempted:
	// a clean-up that also runs on the refusal path ("key file already exists") deletes the
	// existing proposer key.
	c.Doc("C19-R10", "EO: every removal of a file in the key-file code is preceded, on all paths, by that call's own attempt to write the file (a refusal because the file exists never deletes it).")
	{
		nRm := 0
		for _, fn := range p.Funcs {
			pk := fnPkg(fn)
			if pk == nil || pk.Pkg.Path() != filePkg || fn.Parent() != nil || fn.Blocks == nil {
				continue
			}
			g := BuildECFG(p, fn, ExpandOpts{MaxDepth: 1})
			rms := g.Select(func(x *Node) bool { return CallName(x) == "os.Remove" || CallName(x) == "os.RemoveAll" })
			if len(rms) == 0 {
				continue
			}
			c.NoteGraph(g)
			wrote := g.Select(func(x *Node) bool {
				cn := CallName(x)
				if cn == "os.WriteFile" || cn == "os.Create" || cn == "os.OpenFile" {
					return true
				}
				cc := CallCommonOf(x)
				if cc == nil || cc.StaticCallee() == nil || !p.InRepo(cc.StaticCallee()) {
					return false
				}
				return callsNamed(cc.StaticCallee(), func(n string) bool { return n == "os.WriteFile" || n == "os.Create" || n == "os.OpenFile" })
			})
			for _, rm := range rms {
				nRm++
				rm := rm
				inst := fnShort(fn) + " ⟂ removes-only-what-it-wrote"
				c.Decide("C19-R10", inst, fnName(fn), p.InstrPos(rm.In), "the file is removed only after this call attempted to write it",
					"the file can be removed on a path where this call never wrote it (e.g. the refusal because a key file already exists): the existing proposer key is deleted", g,
					g.PathAvoiding([]*Node{g.Entry}, func(x *Node) bool { return x == rm }, nodeSet(wrote)))
			}
		}
		if nRm == 0 {
			c.OK("C19-R10", "key-file ⟂ no-removal", "", "", "the key-file code removes no file", false)
		}
	}
	c.Doc("C19-R5", "VP+EO: a buffer is zeroed outside a defer only after the last use of every value that may alias it.")
	ruleWipeAfterLastUse(c, p, keyFns)
	c.MinInstances("C19-R1", 1)
	c.MinInstances("C19-R2", 1)
	ruleKeyFileIndexing(c, p, "C19-R11")
	ruleNoUseAfterCalleeZeroed(c, p, "C19-R13")
	ruleSealersWriteBeforeSuccess(c, p, "C19-R14")
	c.MinInstances("C19-R3", 3)
	ruleNoTypedNilSigner(c, p, "C19-R15")
	rulePassphraseHandedOverAsGiven(c, p, "C19-R16")
	rulePersistedFieldsSurvive(c, p, "C19-R17", rootPath+"/pkg/signer")
	ruleSignKeepsNoCallerBuffer(c, p, "C19-R18")
	ruleImportExportSameKeyFile(c, p, "C19-R19")
	c.MinInstances("C19-R17", 1)
	c.MinInstances("C19-R4", 2)
}

func pkgOf(fn *ssa.Function) string {
	if pk := fnPkg(fn); pk != nil {
		return pk.Pkg.Path()
	}
	return "?"
}

// ruleWipeAfterLastUse (C19-R5): a buffer is wiped (zeroing helper called outside a defer) only
// after the last use of every value that may alias it. The legacy key derivation returns a slice
// of the passphrase, so wiping the passphrase before the derived key was used zeroes the key.
func ruleWipeAfterLastUse(c *Check, p *Prog, fns []*ssa.Function) {
	rule := "C19-R5"
	// the zeroing helper: a package function whose body stores the constant 0 into an element of its slice parameter
	isWipe := func(fn *ssa.Function) bool {
		if fn == nil || len(fn.Params) != 1 || fn.Signature.Results().Len() != 0 {
			return false
		}
		for _, b := range fn.Blocks {
			for _, in := range b.Instrs {
				if st, ok := in.(*ssa.Store); ok {
					if ia, ok := st.Addr.(*ssa.IndexAddr); ok && ia.X == ssa.Value(fn.Params[0]) {
						if k, ok := st.Val.(*ssa.Const); ok && k.Value != nil && k.Value.String() == "0" {
							return true
						}
					}
				}
			}
		}
		return false
	}
	n := 0
	for _, fn := range fns {
		g := BuildECFG(p, fn, ExpandOpts{MaxDepth: 0})
		c.NoteGraph(g)
		for _, w := range g.Select(func(x *Node) bool {
			call, ok := x.In.(*ssa.Call) // deferred wipes run at exit and are fine
			return ok && isWipe(call.Common().StaticCallee())
		}) {
			n++
			buf := ArgTerm(w, 0)
			// later uses of values that may alias buf
			var aliasUse *Node
			var aliasTerm *Term
			reach := g.Reachable([]*Node{w}, nil)
			for u := range reach {
				cc := CallCommonOf(u)
				if cc == nil || u == w {
					continue
				}
				if call, ok := u.In.(*ssa.Call); ok && isWipe(call.Common().StaticCallee()) {
					continue
				}
				for i := range cc.Args {
					a := ArgTerm(u, i)
					if a == nil {
						continue
					}
					if a.String() == buf.String() || p.DeepContains(a, func(t *Term) bool {
						return t.Op == "slice" && t.Args[0].String() == buf.String() || (t != a && t.String() == buf.String() && t.Op == "param")
					}, 2) {
						// a value derived from the wiped buffer: only slices/aliases matter, not copies; a
						// helper that returns buf[:n] aliases it
						if aliasesBuffer(p, a, buf, 2) {
							aliasUse, aliasTerm = u, a
						}
					}
				}
			}
			inst := fnShort(fn) + " ⟂ wipe(" + trunc(buf.String(), 30) + ")"
			if aliasUse == nil {
				c.OK(rule, inst, fnName(fn), p.InstrPos(w.In), "no value that may alias the wiped buffer is used afterwards", true)
			} else {
				c.Bad(rule, inst, fnName(fn), p.InstrPos(w.In), "the buffer is zeroed here although "+trunc(aliasTerm.String(), 80)+", which may alias it (a helper returns a slice of it), is used afterwards at "+p.InstrPos(aliasUse.In)+": for a legacy key file and a passphrase of 32 bytes or more the cipher key is all zeros — the right passphrase is rejected and any long passphrase opens a file saved under the empty one", nil)
			}
		}
	}
	if n == 0 {
		c.OK(rule, "no-early-wipe", "", "", "no buffer is wiped outside a defer in the key-handling functions", false)
	}
}

// aliasesBuffer: term t may share memory with buf: it is buf, a slice of buf, or the result of a
// repo helper one of whose returns is such a slice.
func aliasesBuffer(p *Prog, t, buf *Term, depth int) bool {
	t = t.unconv()
	if t.String() == buf.String() {
		return true
	}
	if t.Op == "slice" {
		return aliasesBuffer(p, t.Args[0], buf, depth)
	}
	if t.Op == "phi" {
		for _, a := range t.Args {
			if aliasesBuffer(p, a, buf, depth) {
				return true
			}
		}
	}
	if depth > 0 && (t.Op == "call" || (t.Op == "extract" && t.Args[0].Op == "call")) {
		for _, r := range p.ReturnTerms(t) {
			if aliasesBuffer(p, r, buf, depth-1) {
				return true
			}
		}
	}
	return false
}

// ruleKeyFileIndexing (C19-R11): "a wrong passphrase or a corrupted key file never yields a panic".
// Every element access and every re-slicing in the key-file package whose operand is a slice (or
// string) of run-time length is in bounds by a fact established on every path to it: the index is
// compared with the operand's length, is a remainder by that (non-zero) length, or is a constant
// below a tested length. Operands of constant length (arrays, make with a constant) are exempt.
func ruleKeyFileIndexing(c *Check, p *Prog, rule string) {
	c.Doc(rule, "GA: in the key-file code every index into and every re-slice of a slice of run-time length (the passphrase, fields decoded from the file) is covered by a length test on every path to it — an empty passphrase or a truncated field makes the call fail, it does not panic.")
	constLen := func(v ssa.Value) (int64, bool) {
		for i := 0; i < 4; i++ {
			switch x := v.(type) {
			case *ssa.Slice:
				if pt, ok := x.X.Type().Underlying().(*types.Pointer); ok {
					if at, ok := pt.Elem().Underlying().(*types.Array); ok && x.High == nil {
						return at.Len(), true
					}
				}
				if x.Low == nil && x.High == nil {
					v = x.X
					continue
				}
				return 0, false
			case *ssa.MakeSlice:
				if k, ok := x.Len.(*ssa.Const); ok {
					return k.Int64(), true
				}
				return 0, false
			case *ssa.ChangeType:
				v = x.X
				continue
			}
			break
		}
		return 0, false
	}
	intConst := func(v ssa.Value) (int64, bool) {
		if k, ok := v.(*ssa.Const); ok && k.Value != nil {
			return k.Int64(), true
		}
		return 0, false
	}
	n := 0
	ord := map[string]int{}
	for _, fn := range p.Funcs {
		pk := fnPkg(fn)
		if pk == nil || pk.Pkg.Path() != filePkg || fn.Blocks == nil || fn.Synthetic != "" {
			continue
		}
		var g *Graph
		for _, b := range fn.Blocks {
			for _, in := range b.Instrs {
				var base, idx ssa.Value
				kind := ""
				switch x := in.(type) {
				case *ssa.IndexAddr:
					if _, isSlice := x.X.Type().Underlying().(*types.Slice); !isSlice {
						continue // arrays: the compiler rejects constant indices out of range; none is variable here
					}
					base, idx, kind = x.X, x.Index, "index"
				case *ssa.Index:
					if bt, ok := x.X.Type().Underlying().(*types.Basic); !ok || bt.Info()&types.IsString == 0 {
						continue
					}
					base, idx, kind = x.X, x.Index, "index"
				case *ssa.Slice:
					if _, isSlice := x.X.Type().Underlying().(*types.Slice); !isSlice {
						continue
					}
					if x.High == nil && x.Low == nil {
						continue
					}
					base, idx, kind = x.X, x.High, "slice-to"
					if idx == nil {
						idx, kind = x.Low, "slice-from"
					}
				default:
					continue
				}
				n++
				ctx := &Ctx{Fn: fn}
				bt, it := TermOf(base, ctx), TermOf(idx, ctx)
				ord[fnName(fn)+kind+bt.String()]++
				inst := fmt.Sprintf("%s ⟂ %s %s #%d", fnShort(fn), kind, trunc(bt.String(), 40), ord[fnName(fn)+kind+bt.String()])
				pos := p.InstrPos(in)
				// x[:0] and x[0:] are in range for every x
				if k, ok := intConst(idx); ok && k == 0 && kind != "index" {
					c.OK(rule, inst, fnName(fn), pos, "a slice bound of 0 is in range for every length", false)
					continue
				}
				// constant-length operand and constant index
				if l, ok := constLen(base); ok {
					if k, ok := intConst(idx); ok && (k < l || (kind != "index" && k <= l)) {
						c.OK(rule, inst, fnName(fn), pos, fmt.Sprintf("constant index %d into a buffer of constant length %d", k, l), true)
						continue
					}
				}
				if g == nil {
					g = BuildECFG(p, fn, ExpandOpts{MaxDepth: 0})
					c.NoteGraph(g)
				}
				var nd *Node
				for _, cand := range g.Nodes {
					if cand.Kind == NInstr && cand.In == in {
						nd = cand
						break
					}
				}
				if nd == nil {
					c.Unk(rule, inst, fnName(fn), pos, "instruction not found in the function's graph")
					continue
				}
				lenS := "len(" + bt.String() + ")"
				lenAlt := ""
				if mk, ok := base.(*ssa.MakeSlice); ok {
					lenAlt = TermOf(mk.Len, ctx).unconv().String() // the length the buffer was made with
				}
				facts := g.NecessaryEdges(nodeSet([]*Node{nd}))
				nonZero, idxBelow, lenAbove := false, false, int64(-1)
				for _, f := range facts {
					t := f.Cond
					if t.Op != "bin" || len(t.Args) != 2 {
						continue
					}
					a, b := t.Args[0].unconv().String(), t.Args[1].unconv().String()
					op := t.Name
					if !f.Pol {
						op = map[string]string{"<": ">=", "<=": ">", ">": "<=", ">=": "<", "==": "!=", "!=": "=="}[op]
					}
					if lenAlt != "" && a == lenAlt {
						a = lenS
					} else if lenAlt != "" && b == lenAlt {
						b = lenS
					}
					if b == lenS { // normalise to len on the left
						a, b = b, a
						op = map[string]string{"<": ">", "<=": ">=", ">": "<", ">=": "<=", "==": "==", "!=": "!="}[op]
					}
					if a != lenS {
						continue
					}
					var k int64
					isK := false
					if _, err := fmt.Sscan(b, &k); err == nil {
						isK = true
					}
					switch {
					case isK && op == ">" && k+1 > lenAbove:
						lenAbove = k + 1 // len >= k+1
					case isK && op == ">=" && k > lenAbove:
						lenAbove = k
					case isK && op == "!=" && k == 0 && lenAbove < 1:
						lenAbove = 1
					case !isK && b == it.unconv().String() && (op == ">" || (op == ">=" && kind != "index")):
						idxBelow = true
					}
				}
				nonZero = lenAbove >= 1
				iu := it.unconv()
				switch {
				case idxBelow:
					c.OK(rule, inst, fnName(fn), pos, "the index is compared with the operand's length on every path", true)
				case iu.Op == "bin" && iu.Name == "%" && iu.Args[1].unconv().String() == lenS && nonZero:
					c.OK(rule, inst, fnName(fn), pos, "remainder by the operand's length, which is tested non-zero on every path", true)
				case iu.Op == "const" && func() bool { k, ok := intConst(idx); return ok && (k < lenAbove || (kind != "index" && k <= lenAbove)) }():
					c.OK(rule, inst, fnName(fn), pos, fmt.Sprintf("constant index below the tested length (len >= %d)", lenAbove), true)
				case iu.Op == "bin" && iu.Name == "-" && iu.Args[0].unconv().String() == lenS && iu.Args[1].unconv().Op == "const" && func() bool {
					var k int64
					_, err := fmt.Sscan(iu.Args[1].unconv().Name, &k)
					return err == nil && k >= 1 && lenAbove >= k
				}():
					c.OK(rule, inst, fnName(fn), pos, fmt.Sprintf("len-k with the length tested (len >= %d)", lenAbove), true)
				default:
					c.Bad(rule, inst, fnName(fn), pos, "an element of a slice of run-time length is accessed without a length test on every path to it: with an empty passphrase or a truncated field of the key file this call panics (index out of range) instead of returning an error", nil)
				}
			}
		}
	}
	if n < 3 {
		c.Unk(rule, "anchor-count", "", "", fmt.Sprintf("anchor lost: only %d element accesses in the key-file package", n))
	}
}

// ruleNoUseAfterCalleeZeroed (C19-R13): several functions of the key-file code wipe the passphrase
// they were given when they return (defer zeroBytes(passphrase)). The buffer is the caller's: after
// such a call it is all zeros. A caller that goes on to use it — re-encrypting the key under "the
// passphrase" — seals the key under the all-zero passphrase: the file no longer opens with its own
// passphrase and opens with zeros of the same length.
func ruleNoUseAfterCalleeZeroed(c *Check, p *Prog, rule string) {
	c.Doc(rule, "EO+VP: in the key-file code a byte slice that was handed to a function which zeroes that parameter is not used afterwards (other than being zeroed again): the callee wiped the caller's buffer.")
	// functions that zero a []byte parameter (directly or deferred, through the package's wiper)
	isWiper := func(f *ssa.Function) bool {
		return f != nil && fnPkg(f) != nil && fnPkg(f).Pkg.Path() == filePkg && len(f.Params) == 1 && f.Signature.Results().Len() == 0 && strings.HasPrefix(f.Params[0].Type().String(), "[]byte") && mutatesElements(f)
	}
	zeroes := map[*ssa.Function]map[int]bool{}
	for _, fn := range p.Funcs {
		pk := fnPkg(fn)
		if pk == nil || pk.Pkg.Path() != filePkg || fn.Blocks == nil || fn.Parent() != nil {
			continue
		}
		for _, b := range fn.Blocks {
			for _, in := range b.Instrs {
				var cc *ssa.CallCommon
				switch x := in.(type) {
				case *ssa.Call:
					cc = x.Common()
				case *ssa.Defer:
					cc = x.Common()
				}
				if cc == nil || !isWiper(cc.StaticCallee()) || len(cc.Args) != 1 {
					continue
				}
				for i, prm := range fn.Params {
					if cc.Args[0] == ssa.Value(prm) && !isWiper(fn) {
						if zeroes[fn] == nil {
							zeroes[fn] = map[int]bool{}
						}
						zeroes[fn][i] = true
					}
				}
			}
		}
	}
	n := 0
	for _, fn := range p.Funcs {
		pk := fnPkg(fn)
		if pk == nil || pk.Pkg.Path() != filePkg || fn.Blocks == nil || fn.Parent() != nil {
			continue
		}
		var g *Graph
		for _, b := range fn.Blocks {
			for _, in := range b.Instrs {
				call, ok := in.(*ssa.Call)
				if !ok {
					continue
				}
				cal := call.Common().StaticCallee()
				if cal == nil || zeroes[cal] == nil {
					continue
				}
				args := call.Common().Args
				for i := range zeroes[cal] {
					if i >= len(args) {
						continue
					}
					buf := args[i]
					n++
					if g == nil {
						g = BuildECFG(p, fn, ExpandOpts{MaxDepth: 0})
						c.NoteGraph(g)
					}
					var site *Node
					for _, nd := range g.Nodes {
						if nd.Kind == NInstr && nd.In == ssa.Instruction(call) {
							site = nd
						}
					}
					inst := fnShort(fn) + " ⟂ no use of the buffer after " + fnShort(cal) + " wiped it"
					if site == nil {
						c.Unk(rule, inst, fnName(fn), p.InstrPos(call), "call site not found in the graph")
						continue
					}
					later := ""
					for nd, r := range g.Reachable([]*Node{site}, nil) {
						if !r || nd == site || nd.Kind != NInstr {
							continue
						}
						if _, isDeferred := nd.In.(deferredCall); isDeferred {
							continue // the caller's own deferred wipe
						}
						cc := CallCommonOf(nd)
						if cc == nil || isWiper(cc.StaticCallee()) {
							continue
						}
						for _, a := range cc.Args {
							if a == buf {
								later = commonName(cc) + " @" + p.InstrPos(nd.In)
							}
						}
					}
					if later == "" {
						c.OK(rule, inst, fnName(fn), p.InstrPos(call), "the buffer is not used again after the callee wiped it", true)
					} else {
						c.Bad(rule, inst, fnName(fn), p.InstrPos(call), "the buffer handed to "+fnShort(cal)+" is zeroed when that call returns and is then used again by "+later+": what is meant to be the passphrase is all zeros there — a key re-encrypted with it no longer opens with its own passphrase and opens with zeros of the same length", nil)
					}
				}
			}
		}
	}
	if n == 0 {
		c.Unk(rule, "anchor-count", "", "", "anchor lost: no call of a function that wipes its parameter in the key-file package")
	}
}

// mutatesElements: fn stores into elements of its (only) slice parameter.
func mutatesElements(fn *ssa.Function) bool {
	for _, b := range fn.Blocks {
		for _, in := range b.Instrs {
			if st, ok := in.(*ssa.Store); ok {
				if ia, ok := st.Addr.(*ssa.IndexAddr); ok && ia.X == ssa.Value(fn.Params[0]) {
					return true
				}
			}
			if call, ok := in.(*ssa.Call); ok {
				if b, ok := call.Common().Value.(*ssa.Builtin); ok && b.Name() == "clear" && len(call.Common().Args) == 1 && call.Common().Args[0] == ssa.Value(fn.Params[0]) {
					return true
				}
			}
		}
	}
	return false
}

// ruleSealersWriteBeforeSuccess (C19-R14): importing (or saving) a key under a passphrase means
// that afterwards the file opens with that passphrase. A function that seals a key reports
// success only after it wrote the file: a shortcut that returns nil because "the same key is
// already installed" leaves the old ciphertext (another passphrase, or damaged) in place while
// reporting that the import succeeded.
func ruleSealersWriteBeforeSuccess(c *Check, p *Prog, rule string) {
	c.Doc(rule, "EO: every function of the key-file code that seals a private key returns success only after its write of the key file succeeded (no success path that leaves the previous file in place).")
	n := 0
	for _, fn := range p.Funcs {
		pk := fnPkg(fn)
		if pk == nil || pk.Pkg.Path() != filePkg || fn.Blocks == nil || fn.Parent() != nil || corrResult(fn) < 0 {
			continue
		}
		if !callsNamed(fn, func(nm string) bool { return nm == "(crypto/cipher.AEAD).Seal" }) {
			continue
		}
		n++
		g := BuildECFG(p, fn, ownPkgOpts(filePkg, 1))
		c.NoteGraph(g)
		isWrite := func(t *Term) bool {
			return t.IsCall("os.WriteFile") || t.IsCall("os.File).Write") || t.IsCall("os.Rename") || t.IsCall("os.File).Sync") || t.IsCall("os.File).Close")
		}
		wrote := g.Select(ErrNilEdge(isWrite))
		inst := fnShort(fn) + " ⟂ success only after the key file was written"
		if len(wrote) == 0 {
			c.Bad(rule, inst, fnName(fn), p.Pos(fn.Pos()), "the function seals a key but no write of the key file is tested for success", nil)
			continue
		}
		c.Decide(rule, inst, fnName(fn), p.InstrPos(wrote[0].In), "every success return lies behind the successful write of the key file",
			"the function can report success without having written the key file: the previous file stays in place (sealed under another passphrase, or damaged), and the passphrase just given does not open it",
			g, g.PathAvoiding([]*Node{g.Entry}, g.SuccessExits(), nodeSet(wrote)))
	}
	if n < 2 {
		c.Unk(rule, "anchor-count", "", "", fmt.Sprintf("anchor lost: only %d functions seal a key in the key-file package", n))
	}
}

// ruleNoTypedNilSigner (C19-R15): the constructors hand the signer back as an interface value. On
// a failing path that value must be the nil interface: a nil *FileSystemSigner converted to the
// interface (return helper() where the helper returns (*FileSystemSigner, error)) compares != nil
// next to the error, and every method call on it panics — "a wrong passphrase or a corrupted file
// never yields a usable signer or a panic".
func ruleNoTypedNilSigner(c *Check, p *Prog, rule string) {
	c.Doc(rule, "VP: in every function of the signer packages that returns (interface, error), a return whose error may be non-nil hands back the constant nil interface — never a concrete pointer converted to the interface (a nil pointer inside a non-nil interface value).")
	n := 0
	for _, fn := range p.Funcs {
		pk := fnPkg(fn)
		if pk == nil || !strings.HasPrefix(pk.Pkg.Path(), rootPath+"/pkg/signer") || fn.Blocks == nil || fn.Parent() != nil {
			continue
		}
		res := fn.Signature.Results()
		if res.Len() != 2 || res.At(1).Type().String() != "error" {
			continue
		}
		if _, isIface := res.At(0).Type().Underlying().(*types.Interface); !isIface {
			continue
		}
		n++
		bad := ""
		for _, b := range fn.Blocks {
			ret, ok := b.Instrs[len(b.Instrs)-1].(*ssa.Return)
			if !ok || len(ret.Results) != 2 {
				continue
			}
			if classifyReturn(ret, 1) == rcB {
				continue // success return
			}
			v := spilledResult(ret, 0)
			if k, isK := v.(*ssa.Const); isK && k.Value == nil {
				continue
			}
			// a forwarded interface result of another (interface, error) function is that function's business
			if ex, isEx := v.(*ssa.Extract); isEx {
				if _, isIface := ex.Type().Underlying().(*types.Interface); isIface {
					continue
				}
			}
			if mi, isMI := v.(*ssa.MakeInterface); isMI {
				if _, isPtr := mi.X.Type().Underlying().(*types.Pointer); isPtr {
					if _, fresh := mi.X.(*ssa.Alloc); !fresh {
						bad = p.InstrPos(ret) + ": " + trunc(TermOf(mi.X, &Ctx{Fn: fn}).String(), 70)
					}
				}
			}
		}
		inst := fnShort(fn) + " ⟂ nil interface on failure"
		if bad == "" {
			c.OK(rule, inst, fnName(fn), p.Pos(fn.Pos()), "every return that may carry an error hands back the nil interface", true)
		} else {
			c.Bad(rule, inst, fnName(fn), p.Pos(fn.Pos()), "a return that may carry an error converts a concrete pointer to the interface ("+bad+"): when that pointer is nil the caller gets a non-nil signer next to the error, and any method call on it dereferences nil", nil)
		}
	}
	if n == 0 {
		c.Unk(rule, "signer constructors", "", "", "anchor lost: no function returning (interface, error) in the signer packages")
	}
	c.MinInstances(rule, 2)
}

// rulePassphraseHandedOverAsGiven (C19-R16): the key file is sealed by one command (init, keys
// import) and opened by another (start, keys export), each reading the passphrase from the same
// flag. "Loads only with that passphrase and loads to the same key" therefore needs every one of
// them to hand the key-file functions the flag's value as it is: a command that trims, folds or
// otherwise normalises it seals or opens under a different passphrase than its siblings.
func rulePassphraseHandedOverAsGiven(c *Check, p *Prog, rule string) {
	c.Doc(rule, "VP (sibling agreement): at every call of the key-file functions (Create / LoadFileSystemSigner, Import / ExportPrivateKey) outside the signer package, the passphrase argument is the byte conversion of the passphrase flag's value itself — the result of pflag's GetString, looked through the package's helpers — with no string function applied on the way.")
	names := map[string]int{ // function -> index of the passphrase parameter
		filePkg + ".CreateFileSystemSigner": 1,
		filePkg + ".LoadFileSystemSigner":   1,
		filePkg + ".ImportPrivateKey":       2,
		filePkg + ".ExportPrivateKey":       1,
	}
	n := 0
	for _, fn := range p.Funcs {
		pk := fnPkg(fn)
		if pk == nil || !strings.HasPrefix(pk.Pkg.Path(), rootPath) || pk.Pkg.Path() == filePkg || fn.Blocks == nil {
			continue
		}
		for _, b := range fn.Blocks {
			for _, in := range b.Instrs {
				call, ok := in.(*ssa.Call)
				if !ok || call.Common().StaticCallee() == nil {
					continue
				}
				idx, isKey := names[fnName(call.Common().StaticCallee())]
				if !isKey || idx >= len(call.Common().Args) {
					continue
				}
				n++
				t := TermOf(call.Common().Args[idx], &Ctx{Fn: fn})
				bad := ""
				var walk func(x *Term, d int)
				walk = func(x *Term, d int) {
					u := x.unconv()
					switch {
					case u.Op == "extract" && u.Name == "0" && len(u.Args) == 1 && strings.HasSuffix(u.Args[0].Name, "pflag.FlagSet).GetString"):
					case u.Op == "phi":
						for _, a := range u.Args {
							walk(a, d)
						}
					case u.Op == "field" || u.Op == "param" || (u.Op == "const"):
						// a configuration field / a parameter of an exported helper / an empty default: no rewriting here
					default:
						if d > 0 {
							if rs := p.ReturnTerms(u); len(rs) > 0 {
								for _, r := range rs {
									walk(r, d-1)
								}
								return
							}
						}
						bad = trunc(u.String(), 90)
					}
				}
				walk(t, 3)
				inst := fnShort(topParent(fn)) + " ⟂ " + fnShort(call.Common().StaticCallee()) + " gets the passphrase as given"
				if bad == "" {
					c.OK(rule, inst, fnName(fn), p.InstrPos(call), "the passphrase argument is the flag's value itself: "+trunc(t.String(), 80), true)
				} else {
					c.Bad(rule, inst, fnName(fn), p.InstrPos(call), "the passphrase handed to the key-file function is rewritten on the way from the flag ("+bad+"): the key is sealed or opened under a different passphrase than the one the other commands use for the same flag value — a key saved under a passphrase does not load with it", nil)
				}
			}
		}
	}
	if n == 0 {
		c.Unk(rule, "key-file call sites", "", "", "anchor lost: no call of the key-file functions outside the signer package")
	}
	c.MinInstances(rule, 3)
}

// ruleSignKeepsNoCallerBuffer (C19-R18): Sign is handed a payload in the caller's buffer, which
// the caller is free to reuse for the next payload. A signer that keeps the slice itself (a memo
// of the last message stored by reference) compares the caller's buffer with itself later on, and
// hands out the signature of an older payload for a newer one: a signature that does not verify
// under the key the signer reports.
func ruleSignKeepsNoCallerBuffer(c *Check, p *Prog, rule string) {
	c.Doc(rule, "VP: no Sign method of a signer implementation stores its message parameter (or a slice of it) into the signer or into a package-level variable: what it remembers of a message is a copy.")
	n := 0
	for _, fn := range p.Funcs {
		pk := fnPkg(fn)
		if pk == nil || !strings.HasPrefix(pk.Pkg.Path(), rootPath+"/pkg/signer") || fn.Blocks == nil || fn.Name() != "Sign" || fn.Signature.Recv() == nil {
			continue
		}
		var msg *ssa.Parameter
		for _, prm := range fn.Params[1:] {
			if prm.Type().String() == "[]byte" {
				msg = prm
			}
		}
		if msg == nil {
			continue
		}
		n++
		isMsg := func(v ssa.Value) bool {
			for d := 0; d < 4 && v != nil; d++ {
				if v == ssa.Value(msg) {
					return true
				}
				switch x := v.(type) {
				case *ssa.Slice:
					v = x.X
				case *ssa.ChangeType:
					v = x.X
				default:
					return false
				}
			}
			return false
		}
		kept := ""
		for _, b := range fn.Blocks {
			for _, in := range b.Instrs {
				st, ok := in.(*ssa.Store)
				if !ok || !isMsg(st.Val) {
					continue
				}
				switch a := st.Addr.(type) {
				case *ssa.FieldAddr:
					kept = "stored into " + TermOf(a, &Ctx{Fn: fn}).String() + " @" + p.InstrPos(in)
				case *ssa.Global:
					kept = "stored into " + a.Name() + " @" + p.InstrPos(in)
				case *ssa.IndexAddr:
					kept = "stored into a container @" + p.InstrPos(in)
				}
			}
		}
		inst := fnShort(fn) + " ⟂ the caller's buffer is not kept"
		if kept == "" {
			c.OK(rule, inst, fnName(fn), p.Pos(fn.Pos()), "the message parameter is stored nowhere", true)
		} else {
			c.Bad(rule, inst, fnName(fn), p.Pos(fn.Pos()), "Sign keeps the caller's message slice itself ("+kept+"): when the caller reuses its buffer for the next payload, the remembered message changes with it, the comparison with it always matches, and the signer returns the previous payload's signature — a signature that does not verify under its own public key", nil)
		}
	}
	if n == 0 {
		c.Unk(rule, "anchor-count", "", "", "anchor lost: no Sign method in the signer packages")
	}
	c.MinInstances(rule, 2)
}

// ruleImportExportSameKeyFile (C19-R19): "export followed by import preserves the key" is a
// statement about one key file. The two commands agree on where it is: the directory handed to
// ImportPrivateKey and the one handed to ExportPrivateKey are the same expression over the
// node's configuration (read through helpers of the package). A command that follows the
// configured signer path while its sibling keeps to <home>/config meets the same file only under
// the default configuration.
func ruleImportExportSameKeyFile(c *Check, p *Prog, rule string) {
	c.Doc(rule, "VP (sibling agreement): the key directory passed to ImportPrivateKey and the one passed to ExportPrivateKey by the key commands are the same expression over the configuration (helpers of the package looked through): what one command writes is what the other reads, under every configuration.")
	render := func(fn *ssa.Function, v ssa.Value) []string {
		t := TermOf(v, &Ctx{Fn: fn})
		var out []string
		var walk func(x *Term, d int)
		walk = func(x *Term, d int) {
			u := x.unconv()
			if u.Op == "phi" {
				for _, a := range u.Args {
					walk(a, d)
				}
				return
			}
			if u.Op == "call" && d > 0 && !strings.HasPrefix(u.Name, "path/filepath.") {
				if rs := p.ReturnTerms(u); len(rs) > 0 {
					for _, r := range rs {
						walk(r, d-1)
					}
					return
				}
			}
			out = append(out, u.String())
		}
		walk(t, 3)
		sort.Strings(out)
		return out
	}
	sites := map[string][][]string{}
	pos := map[string]string{}
	fnOf := map[string]string{}
	for _, fn := range p.Funcs {
		pk := fnPkg(fn)
		if pk == nil || !strings.HasPrefix(pk.Pkg.Path(), rootPath) || pk.Pkg.Path() == filePkg || fn.Blocks == nil {
			continue
		}
		for _, b := range fn.Blocks {
			for _, in := range b.Instrs {
				call, ok := in.(*ssa.Call)
				if !ok || call.Common().StaticCallee() == nil || len(call.Common().Args) == 0 {
					continue
				}
				var kind string
				switch fnName(call.Common().StaticCallee()) {
				case filePkg + ".ImportPrivateKey":
					kind = "import"
				case filePkg + ".ExportPrivateKey":
					kind = "export"
				default:
					continue
				}
				sites[kind] = append(sites[kind], render(fn, call.Common().Args[0]))
				pos[kind], fnOf[kind] = p.InstrPos(in), fnName(fn)
			}
		}
	}
	if len(sites["import"]) == 0 || len(sites["export"]) == 0 {
		c.Unk(rule, "keys import / export ⟂ same key file", "", "", fmt.Sprintf("anchor lost: %d import and %d export call sites", len(sites["import"]), len(sites["export"])))
		return
	}
	canon := func(xs [][]string) string {
		var all []string
		for _, x := range xs {
			all = append(all, strings.Join(x, " | "))
		}
		sort.Strings(all)
		return strings.Join(all, " || ")
	}
	im, ex := canon(sites["import"]), canon(sites["export"])
	if im == ex {
		c.OK(rule, "keys import / export ⟂ same key file", fnOf["import"], pos["import"], "both commands hand the key-file functions "+trunc(im, 100), true)
	} else {
		c.Bad(rule, "keys import / export ⟂ same key file", fnOf["import"], pos["import"], "the import command writes the key under "+trunc(im, 120)+" while the export command reads it from "+trunc(ex, 120)+": with a signer path other than the default the two commands do not meet the same file — an imported key cannot be exported again (or an older key is exported instead)", nil)
	}
}
