package main

import (
	"syscall"
	"fmt"
	"go/types"
	"strings"

	"golang.org/x/tools/go/ssa"
)

const (
	loopAggregation = "(*" + rootPath + "/block.Manager).AggregationLoop"
	loopSync        = "(*" + rootPath + "/block.Manager).SyncLoop"
)

func init() {
	register("C04", &propDef{
		run: runC04,
		explanation: "Decides structural necessary conditions of crash recovery of block production, for every path of the production step " +
			"(the function reachable from AggregationLoop that saves blocks): R1 the durable writes of a step are ordered final block save < state < height " +
			"(the only order all of whose prefixes the restart code can reconcile: NewManager only raises the height to the state's height); " +
			"R2 NewManager reconciles the height with the loaded state on every success path; R3 a block already stored at the next height is re-used and no batch is taken; " +
			"R4 the block is saved before the execution layer sees it; R5 the shutdown cache files are replaced atomically or a damaged file is tolerated by the loader. " +
			"A crash point is a position between two durable writes, so the projection of every CFG path on the write calls covers all crash points of all paths.",
		notDecided: "The executor's own crash consistency; durability and atomicity inside the datastore (badger); nested crashes beyond the fact that recovery re-runs the same step; that production eventually resumes (eventuality).",
		assumptions: []string{"Store/Executor/Sequencer interface calls are effect leaves: their implementations are not analysed here (C14 covers the store)",
			"go/ssa call resolution; the publishBlock function field is bound by a census of all stores to it"},
	})
	register("C05", &propDef{
		run: runC05,
		explanation: "Decides, for every path of the apply step (the function reachable from SyncLoop that saves blocks), per loop iteration: R1 durable writes ordered block save < state < height, " +
			"the only order whose every prefix the restart code (raise height to state height) can reconcile without a hole below the height; R2 = C04-R2 restart reconciliation; " +
			"R3 execution and all writes are guarded by successful validation of the very header/data applied.",
		notDecided:  "Convergence after restart (eventuality); datastore durability; equality with the proposer's blocks (follows from validation clauses checked under C01/C02/C03, not re-claimed).",
		assumptions: []string{"Store/Executor interface calls are effect leaves", "go/ssa call resolution"},
	})
}

// productionStep returns the production step function(s).
func productionStep(c *Check, p *Prog) []*ssa.Function {
	fs := stepFuncs(c, p, loopAggregation, 6, storeM("SaveBlockData"))
	return fs
}

func applyStep(c *Check, p *Prog) []*ssa.Function {
	pick := func(n *Node) bool { return strings.HasSuffix(genericName(CallName(n)), "pkg/cache.Cache[_]).GetItem") }
	return stepFuncsAnchored(c, p, loopSync, 5, pick, storeM("SaveBlockData"))
}

func runC04(c *Check) {
	p := c.Mod(ModRoot)
	depth := 5
	if c.Thorough() {
		depth = 8
	}
	c.Doc("C04-R1", "EO: in the production step, every Store.UpdateState is freshly preceded by a post-signature Store.SaveBlockData, and every Store.SetHeight by a Store.UpdateState (block < state < height).")
	c.Doc("C04-R2", "EO+VP: in NewManager every success return is preceded by Store.SetHeight(s.LastBlockHeight) with s the result of the initial-state loader.")
	c.Doc("C04-R3", "GA: Sequencer.GetNextBatch and the block builder are reachable only on the failing edge of Store.GetBlockData(Store.Height()+1); on the success edge the loaded header/data are the ones committed.")
	c.Doc("C04-R4", "EO: Executor.ExecuteTxs is preceded on every path by the nil-error edge of a Store.SaveBlockData of this step or by the successful load of the stored block.")
	c.Doc("C04-R5", "EO/GA: the cache writer creates its file under a temporary name and renames it onto the final path on every success path, or the loader does not fail on a decode error.")
	steps := productionStep(c, p)
	if len(steps) == 0 {
		c.Unk("C04-R1", "anchor", "", "", "anchor lost: no function reachable from AggregationLoop calls Store.SaveBlockData")
		return
	}
	for _, step := range steps {
		g := BuildECFG(p, step, ExpandOpts{MaxDepth: depth})
		c.NoteGraph(g)
		fn := fnName(step)
		isSave := IsCall(storeM("SaveBlockData"))
		isState := IsCall(storeM("UpdateState"))
		isHeight := IsCall(storeM("SetHeight"))
		isSign := IsCall(signerM("Sign"))
		isExec := IsCall(execM("ExecuteTxs"))
		isBatch := IsCall(seqM("GetNextBatch"))

		// final saves: saves every path to which passes the signing call
		var finals []*Node
		for _, s := range g.Select(isSave) {
			if g.PathAvoiding([]*Node{g.Entry}, nodeSet([]*Node{s}), isSign) == nil {
				finals = append(finals, s)
			}
		}
		isFinal := nodeSet(finals)
		if len(finals) == 0 {
			c.Bad("C04-R1", fnShort(step)+" ⟂ final-save", fn, "", "no Store.SaveBlockData is dominated by the header signing call: the signed block is never saved", nil)
		}
		if len(g.Select(isState)) == 0 || len(g.Select(isHeight)) == 0 {
			c.Unk("C04-R1", fnShort(step)+" ⟂ writes", fn, "", "anchor lost: the production step has no UpdateState / SetHeight call in reach")
		} else {
			c.Decide("C04-R1", fnShort(step)+" ⟂ SaveBlockData<UpdateState", fn, posOf(g, isState),
				"every state write is preceded by the final block save",
				"a path reaches Store.UpdateState without the final Store.SaveBlockData: a crash after it leaves a state whose block is not stored (restart raises the height over a hole)",
				g, g.FreshPrecede(isFinal, isState))
			c.Decide("C04-R1", fnShort(step)+" ⟂ UpdateState<SetHeight", fn, posOf(g, isHeight),
				"every height write is preceded by the state write",
				"a path reaches Store.SetHeight before Store.UpdateState: a crash between them leaves height n with state n-1; every later step builds n+1 on state n-1 and fails validation forever",
				g, g.FreshPrecede(isState, isHeight))
		}

		// R3: batch taken only when no stored block at next height
		loadNext := func(t *Term) bool {
			return t.IsCall("pkg/store.Store).GetBlockData") && len(t.Args) >= 3 && isHeightPlusOne(t.Args[2])
		}
		loadFail := g.Select(ErrNotNilEdge(loadNext))
		loadOK := g.Select(ErrNilEdge(loadNext))
		if len(loadFail) == 0 || len(loadOK) == 0 {
			c.Bad("C04-R3", fnShort(step)+" ⟂ GetBlockData(next)", fn, "", "no branch on the result of Store.GetBlockData(Store.Height()+1) in the production step: a block stored before a crash would be replaced by a different one", nil)
		} else {
			c.Decide("C04-R3", fnShort(step)+" ⟂ GetNextBatch", fn, posOf(g, isBatch),
				"a batch is taken only when no block is stored at the next height",
				"Sequencer.GetNextBatch is reachable although a block is already stored at the next height: the stored (possibly published) block would be replaced",
				g, g.MustPrecede(nodeSet(loadFail), isBatch))
			// the early save must also be behind the failing edge: never overwrite a stored block before signing
			var early []*Node
			for _, s := range g.Select(isSave) {
				if !isFinal(s) {
					early = append(early, s)
				}
			}
			if len(early) > 0 {
				c.Decide("C04-R3", fnShort(step)+" ⟂ early-save", fn, posOf(g, nodeSet(early)),
					"the early save happens only when no block is stored at the next height",
					"an unsigned block is saved over a block already stored at the next height",
					g, g.MustPrecede(nodeSet(loadFail), nodeSet(early)))
			}
			// on the success edge the header/data passed on are the loaded ones: the final save's arguments
			for _, s := range finals {
				h, d := ArgTerm(s, 1), ArgTerm(s, 2)
				okH := h != nil && h.Contains(func(t *Term) bool { return t.Op == "extract" && t.Name == "0" && loadNext(t.Args[0]) })
				okD := d != nil && d.Contains(func(t *Term) bool { return t.Op == "extract" && t.Name == "1" && loadNext(t.Args[0]) })
				if okH && okD {
					c.OK("C04-R3", fnShort(step)+" ⟂ reuse-loaded", fn, g.P.InstrPos(s.In), "the final save's header/data may be the loaded ones: "+trunc(h.String(), 80), true)
				} else {
					c.Bad("C04-R3", fnShort(step)+" ⟂ reuse-loaded", fn, g.P.InstrPos(s.In), "the block saved finally does not derive from the block loaded at the next height: header="+trunc(h.String(), 100), nil)
				}
			}
		}

		// R13: the block found at the next height is the one this step saved before a crash; it is
		// taken over as it is. A return between finding it and executing it — a test on the stored
		// block's content — fails the same way on every later attempt and after every restart.
		if len(loadOK) > 0 && len(g.Select(isExec)) > 0 {
			c.Decide("C04-R13", fnShort(step)+" ⟂ stored-block-taken-over", fn, g.P.InstrPos(loadOK[0].In),
				"every path from finding a block stored at the next height leads to its execution: the step refuses nothing about a block it saved itself",
				"the production step can return after finding a block stored at the next height and before executing it: the early-saved block is unsigned (it carries the previous block's signature), so a refusal on its content repeats on every attempt and after every restart — the node can never produce a block again", g,
				g.MustFollow(nodeSet(loadOK), isExec, g.AnyExit()))
		}

		// R4
		if len(g.Select(isExec)) == 0 {
			c.Unk("C04-R4", fnShort(step)+" ⟂ ExecuteTxs", fn, "", "anchor lost: no Executor.ExecuteTxs in reach of the production step")
		} else {
			// "saved" is the nil edge of the save: a failed early save that is only logged leaves
			// nothing for a restart to take over, while the executor and the sequencer move on
			saveOK := g.Select(ErrNilEdge(func(t *Term) bool { return t.IsCall("pkg/store.Store).SaveBlockData") }))
			c.Decide("C04-R4", fnShort(step)+" ⟂ save<ExecuteTxs", fn, posOf(g, isExec),
				"what the execution layer sees has been saved (or was loaded from the store) before",
				"Executor.ExecuteTxs is reachable before the block is durable: after a crash a different block can be executed at the same height",
				g, g.FreshPrecede(orPred(nodeSet(saveOK), nodeSet(loadOK)), isExec))
		}
		undecidedGraph(c, "C04-R1", g, nil)
	}
	c.MinInstances("C04-R1", 2)
	c.MinInstances("C04-R3", 3)
	c.MinInstances("C04-R4", 1)
	c.Doc("C04-R13", "EO: from the success edge of Store.GetBlockData(Store.Height()+1) (a block saved before a crash) every path to a return of the production step passes Executor.ExecuteTxs: the stored block is taken over as it is, never refused on its content (the early-saved block is not yet signed).")
	c.MinInstances("C04-R13", 1)
	c.MinInstances("C04-R16", 1)

	ruleRestartReconciliation(c, p, "C04-R2")
	ruleCacheFiles(c, p, "C04-R5")
	rulePersistedStateLoadable(c, p, "C04-R6")
	ruleBlockSaveAtomic(c, p, "C04-R14")
	ruleFirstStartRepeatable(c, p, "C04-R15")
	c.Doc("C04-R7", "error discipline: in the block package and the store, no error returned by the store, the datastore, the executor, the sequencer or the DA layer is discarded (a discarded error of a durable write lets the step continue as if it had been written).")
	ruleNoDroppedLayerErrors(c, p, "C04-R7", []string{rootPath + "/block", storePkg})
	ruleVerifyHookAdjacency(c, p, "C04-R8")
	rulePublisherSeedsEmptyStore(c, p, "C04-R9")
	ruleSinglePurposeWriters(c, p, "C04-R10")
	ruleWritersRefuseNothing(c, p, "C04-R11")
	ruleConstructorToleratesAbsentCursor(c, p, "C04-R12")
}

func runC05(c *Check) {
	p := c.Mod(ModRoot)
	depth := 5
	if c.Thorough() {
		depth = 8
	}
	c.Doc("C05-R1", "EO: in the apply step, per loop iteration: Store.SaveBlockData < Store.UpdateState < Store.SetHeight.")
	c.Doc("C05-R2", "= C04-R2: NewManager raises the store height to the loaded state's height on every success path.")
	c.Doc("C05-R3", "EO+GA: Executor.ExecuteTxs and the three writes of an iteration are reachable only through the nil edge of Manager.Validate on the header/data applied.")
	steps := applyStep(c, p)
	if len(steps) == 0 {
		c.Unk("C05-R1", "anchor", "", "", "anchor lost: no function reachable from SyncLoop calls Store.SaveBlockData")
		return
	}
	for _, step := range steps {
		g := BuildECFG(p, step, ExpandOpts{MaxDepth: depth})
		c.NoteGraph(g)
		fn := fnName(step)
		isSave := IsCall(storeM("SaveBlockData"))
		isState := IsCall(storeM("UpdateState"))
		isHeight := IsCall(storeM("SetHeight"))
		isExec := IsCall(execM("ExecuteTxs"))
		if len(g.Select(isState)) == 0 || len(g.Select(isHeight)) == 0 {
			c.Unk("C05-R1", fnShort(step)+" ⟂ writes", fn, "", "anchor lost: the apply step has no UpdateState / SetHeight call in reach")
			continue
		}
		// the start of an iteration: the call that picks this iteration's items
		isPick := func(n *Node) bool { return strings.HasSuffix(CallName(n), "Cache[_]).GetItem") }
		if len(g.Select(isPick)) == 0 {
			c.Unk("C05-R1", fnShort(step)+" ⟂ GetItem", fn, "", "anchor lost: the apply step does not pick its items with Cache.GetItem")
			continue
		}
		c.Decide("C05-R1", fnShort(step)+" ⟂ SaveBlockData<UpdateState", fn, posOf(g, isState),
			"every state write is preceded by the block save of the same iteration",
			"a path reaches Store.UpdateState before Store.SaveBlockData: a crash between them makes the restart raise the height over a block that was never stored",
			g, g.PrecedeSince(isPick, isSave, isState))
		c.Decide("C05-R1", fnShort(step)+" ⟂ UpdateState<SetHeight", fn, posOf(g, isHeight),
			"every height write is preceded by the state write of the same iteration",
			"a path reaches Store.SetHeight before Store.UpdateState: a crash between them leaves height n with state n-1 and sync fails validation forever",
			g, g.PrecedeSince(isPick, isState, isHeight))

		// R3 validate-before-effects
		validOK := g.Select(ErrNilEdge(func(t *Term) bool { return t.IsCall("block.Manager).Validate") }))
		if len(validOK) == 0 {
			c.Bad("C05-R3", fnShort(step)+" ⟂ Validate", fn, "", "no branch on the result of Manager.Validate in the apply step", nil)
		} else {
			for _, e := range []struct {
				name string
				pred NodePred
			}{{"ExecuteTxs", isExec}, {"SaveBlockData", isSave}, {"UpdateState", isState}, {"SetHeight", isHeight}} {
				c.Decide("C05-R3", fnShort(step)+" ⟂ Validate<"+e.name, fn, posOf(g, e.pred),
					e.name+" only after successful validation in the same iteration",
					e.name+" is reachable without a successful Manager.Validate in the same iteration: an invalid block can be applied",
					g, g.PrecedeSince(isPick, nodeSet(validOK), e.pred))
			}
			// the validated values are the ones executed and saved
			for _, v := range validOK {
				ct, _ := CondTerm(v)
				var call *Term
				ct.Walk(func(t *Term) bool {
					if t.IsCall("block.Manager).Validate") {
						call = t
					}
					return true
				})
				if call == nil || len(call.Args) < 4 {
					continue
				}
				hv, dv := call.Args[2].String(), call.Args[3].String()
				for _, s := range g.Select(isSave) {
					hs, dsv := ArgTerm(s, 1).String(), ArgTerm(s, 2).String()
					if hs == hv && dsv == dv {
						c.OK("C05-R3", fnShort(step)+" ⟂ saved=validated", fn, g.P.InstrPos(s.In), "saved header/data are the validated values: "+trunc(hv, 60), true)
					} else {
						c.Bad("C05-R3", fnShort(step)+" ⟂ saved=validated", fn, g.P.InstrPos(s.In), "saved header/data ("+trunc(hs, 60)+", "+trunc(dsv, 60)+") are not the validated values ("+trunc(hv, 60)+", "+trunc(dv, 60)+")", nil)
					}
				}
			}
		}
		undecidedGraph(c, "C05-R1", g, nil)
	}
	c.MinInstances("C05-R1", 2)
	c.MinInstances("C05-R3", 5)
	ruleRestartReconciliation(c, p, "C05-R2")
	ruleReexecutionAccepted(c, "C05-R4")
	rulePersistedStateLoadable(c, p, "C05-R5")
	ruleMarksAfterItems(c, p, "C05-R6")
	ruleSeenCensus(c, p, "C05-R9", steps)
	ruleItemRemovalCensus(c, p, "C05-R12", steps)
	ruleFinalisationRepeatable(c, "C05-R10")
	ruleBlockSaveAtomic(c, p, "C05-R11")
	ruleSinglePurposeWriters(c, p, "C05-R7")
	ruleWritersRefuseNothing(c, p, "C05-R8")
}

// ruleReexecutionAccepted (C05-R4): the apply step executes a block before it records the new
// state; after a crash in between, the restart applies the same block again with the previous
// state root of the recorded (older) state while the executor already holds the newer state.
// The repository's executor must therefore not refuse ExecuteTxs on a comparison involving
// prevStateRoot: no branch that leads only to error returns may depend on that parameter.
func ruleReexecutionAccepted(c *Check, rule string) {
	c.Doc(rule, "GA: in the repository's executor, no refusing branch of ExecuteTxs depends on the prevStateRoot parameter (re-execution after a crash between execution and the state write must be accepted).")
	tp := c.Mod(ModTestapp)
	n := 0
	for _, fn := range tp.Funcs {
		if fn.Parent() != nil || fn.Name() != "ExecuteTxs" || fn.Signature.Recv() == nil || !tp.InRepo(fn) || fn.Signature.Params().Len() != 5 {
			continue
		}
		pk := fnPkg(fn)
		if pk == nil || !strings.HasPrefix(pk.Pkg.Path(), rootPath) {
			continue
		}
		prev := fn.Params[len(fn.Params)-1]
		if prev.Type().String() != "[]byte" {
			continue
		}
		n++
		g := BuildECFG(tp, fn, ExpandOpts{MaxDepth: 1})
		c.NoteGraph(g)
		var bad *Node
		for _, e := range g.Select(func(x *Node) bool { return x.Kind == NTrue || x.Kind == NFalse }) {
			allErr, any := true, false
			reach := g.Reachable([]*Node{e}, nil)
			for _, x := range g.Exits {
				if reach[x] {
					any = true
					if g.ExitClass(x) != rcA {
						allErr = false
					}
				}
			}
			if !any || !allErr {
				continue
			}
			t, _ := CondTerm(e)
			if tp.DeepContains(t, func(x *Term) bool { return x.V == ssa.Value(prev) }, 2) {
				bad = e
			}
		}
		inst := fnShort(fn) + " ⟂ never-refuses-on-prevStateRoot"
		if bad == nil {
			c.OK(rule, inst, fnName(fn), tp.Pos(fn.Pos()), "no refusing branch depends on prevStateRoot", true)
		} else {
			t, _ := CondTerm(bad)
			c.Bad(rule, inst, fnName(fn), tp.InstrPos(bad.In), "ExecuteTxs refuses on "+trunc(t.String(), 100)+", which involves prevStateRoot: after a crash between execution and the state write the restart re-applies the block with the older state root and is refused forever", nil)
		}
	}
	if n == 0 {
		c.Unk(rule, "executors", "", "", "anchor lost: no ExecuteTxs implementation in the application module")
	}
	c.MinInstances(rule, 1)
}

// ruleFinalisationRepeatable (C05-R10 / C15-R6 / C07-R11): the DA includer finalises a height in the
// execution layer first and records it in the node's store afterwards. After a crash in between,
// the restarted node finds the height DA-included again and finalises it a second time. The
// repository's executor therefore accepts SetFinal for a height it has already finalised: no
// branch that leads only to error returns depends on what the executor's datastore holds (the
// remembered finalised height), only on the request itself.
func ruleFinalisationRepeatable(c *Check, rule string) {
	c.Doc(rule, "GA: in the repository's executor, no refusing branch of SetFinal depends on what its datastore holds (e.g. the finalised height recorded before) other than through a strict ordering test: after a crash between the execution layer's finalisation and the node's record of it the same height is finalised again, and a refusal halts the node at every start.")
	tp := c.Mod(ModTestapp)
	n := 0
	for _, fn := range tp.Funcs {
		if fn.Parent() != nil || fn.Name() != "SetFinal" || fn.Signature.Recv() == nil || !tp.InRepo(fn) {
			continue
		}
		pk := fnPkg(fn)
		if pk == nil || !strings.HasPrefix(pk.Pkg.Path(), rootPath) || strings.Contains(pk.Pkg.Path(), "/core/") {
			continue
		}
		n++
		g := BuildECFG(tp, fn, ExpandOpts{MaxDepth: 1})
		c.NoteGraph(g)
		var bad *Node
		for _, e := range g.Select(func(x *Node) bool { return x.Kind == NTrue || x.Kind == NFalse }) {
			allErr, any := true, false
			reach := g.Reachable([]*Node{e}, nil)
			for _, x := range g.Exits {
				if reach[x] {
					any = true
					if g.ExitClass(x) != rcA {
						allErr = false
					}
				}
			}
			if !any || !allErr {
				continue
			}
			t, _ := CondTerm(e)
			// a comparison of the request with stored contents (not the error test of the read itself)
			isErrTest := t.Op == "bin" && (t.Name == "!=" || t.Name == "==") && t.Args[1].Name == "nil" && t.Args[0].V != nil && t.Args[0].V.Type().String() == "error"
			// a strict ordering test against the stored value cannot refuse a repetition of the
			// same height (only an older one, which the node never asks for)
			if _, op, _, okc := canonCmp(t, e.Kind == NTrue); okc && (op == "<" || op == ">") {
				continue
			}
			if !isErrTest && tp.DeepContains(t, func(x *Term) bool {
				return x.Op == "invoke" && strings.Contains(x.Name, "go-datastore") && (strings.HasSuffix(x.Name, ".Get") || strings.HasSuffix(x.Name, ".Has") || strings.HasSuffix(x.Name, ".Query") || strings.HasSuffix(x.Name, ".GetSize"))
			}, 2) {
				bad = e
			}
		}
		inst := fnShort(fn) + " ⟂ never-refuses-on-stored-contents"
		if bad == nil {
			c.OK(rule, inst, fnName(fn), tp.Pos(fn.Pos()), "no refusing branch of SetFinal depends on the executor's stored contents", true)
		} else {
			t, _ := CondTerm(bad)
			c.Bad(rule, inst, fnName(fn), tp.InstrPos(bad.In), "SetFinal refuses on "+trunc(t.String(), 120)+", which depends on what the executor stored before: after a crash between SetFinal(h) and the node's record of the DA-included height the restart finalises h again; the refusal is reported as an unrecoverable error and the node halts at every start", nil)
		}
	}
	if n == 0 {
		c.Unk(rule, "executors", "", "", "anchor lost: no SetFinal implementation in the application module")
	}
	c.MinInstances(rule, 1)
}

// isHeightPlusOne: term is Store.Height(...)#0 + 1
func isHeightPlusOne(t *Term) bool {
	t = t.unconv()
	if t.Op != "bin" || t.Name != "+" {
		return false
	}
	a, b := t.Args[0].unconv(), t.Args[1].unconv()
	isH := func(x *Term) bool {
		return x.Op == "extract" && x.Name == "0" && x.Args[0].IsCall("pkg/store.Store).Height")
	}
	isOne := func(x *Term) bool { return x.Op == "const" && x.Name == "1" }
	return (isH(a) && isOne(b)) || (isH(b) && isOne(a))
}

// ErrNotNilEdge: the edge on which the error result of a matching call is non-nil.
func ErrNotNilEdge(callPred func(t *Term) bool) NodePred {
	nilEdge := ErrNilEdge(callPred)
	return func(n *Node) bool {
		if n.Kind != NTrue && n.Kind != NFalse {
			return false
		}
		// the sibling edge of a nil edge
		sib := *n
		if n.Kind == NTrue {
			sib.Kind = NFalse
		} else {
			sib.Kind = NTrue
		}
		return nilEdge(&sib)
	}
}

// ruleRestartReconciliation (C04-R2 / C05-R2).
func ruleRestartReconciliation(c *Check, p *Prog, rule string) {
	nm := p.MustFunc(blockF("NewManager"))
	g := BuildECFG(p, nm, ExpandOpts{MaxDepth: 1, Stop: func(fn *ssa.Function) bool { return true }})
	c.NoteGraph(g)
	fn := fnName(nm)
	// the initial-state loader: the repo function called by NewManager whose first result is types.State
	isSetH := func(n *Node) bool {
		if CallName(n) != storeM("SetHeight") {
			return false
		}
		a := ArgTerm(n, 1)
		if a == nil {
			return false
		}
		s := a.String()
		return a.Op == "field" && a.Name == "LastBlockHeight" && strings.Contains(s, "getInitialState(") || (a.Op == "field" && a.Name == "LastBlockHeight" && a.Args[0].Op == "extract" && a.Args[0].Args[0].Op == "call")
	}
	hs := g.Select(isSetH)
	if len(hs) == 0 {
		c.Bad(rule, "NewManager ⟂ SetHeight(state.LastBlockHeight)", fn, "", "NewManager does not call Store.SetHeight with the loaded state's LastBlockHeight: after a crash between state and height writes the two stay inconsistent", nil)
		return
	}
	// success exits: returns whose error is not definitely non-nil
	path := g.PathAvoiding([]*Node{g.Entry}, g.SuccessExits(), nodeSet(g.Select(ErrNilEdge(func(t *Term) bool {
		return t.IsCall("pkg/store.Store).SetHeight")
	}))))
	c.Decide(rule, "NewManager ⟂ SetHeight(state.LastBlockHeight)", fn, g.P.InstrPos(hs[0].In),
		"every success return of NewManager follows a successful Store.SetHeight(loaded state height): "+trunc(ArgTerm(hs[0], 1).String(), 80),
		"a success return of NewManager is reachable without a successful Store.SetHeight(state.LastBlockHeight)", g, path)
}

// ruleCacheFiles (C04-R5).
func ruleCacheFiles(c *Check, p *Prog, rule string) {
	c.Doc("C04-R16", "GA: the cache writer's temporary file replaces whatever a crashed save left under that fixed name: it is created with a truncating open (os.Create / O_TRUNC), never exclusively (O_EXCL) unless the leftover is removed first — otherwise the first crash between create and rename makes every later save fail.")
	cachePkg := rootPath + "/pkg/cache"
	var creators, loaders []*ssa.Function
	for _, fn := range p.Funcs {
		pk := fnPkg(fn)
		if pk == nil || pk.Pkg.Path() != cachePkg {
			continue
		}
		if fn.Origin() != nil && fn.Origin() != fn {
			continue // analyse generic bodies once (instantiations have the same shape)
		}
		for _, b := range fn.Blocks {
			for _, in := range b.Instrs {
				if call, ok := in.(*ssa.Call); ok {
					switch commonName(call.Common()) {
					case "os.Create", "os.OpenFile", "os.WriteFile":
						creators = append(creators, fn)
					case "(*encoding/gob.Decoder).Decode":
						loaders = append(loaders, fn)
					}
				}
			}
		}
	}
	if len(creators) == 0 || len(loaders) == 0 {
		c.Unk(rule, "cache ⟂ writer/loader", "", "", "anchor lost: no file-creating function or no gob-decoding function in pkg/cache")
		return
	}
	// (b) tolerant loader?
	tolerant := true
	var loaderWitness []*Node
	var lg *Graph
	for _, l := range loaders {
		g := BuildECFG(p, l, ExpandOpts{MaxDepth: 0})
		c.NoteGraph(g)
		decodeFail := g.Select(ErrNotNilEdge(func(t *Term) bool { return t.IsCall("gob.Decoder).Decode") }))
		errExits := func(n *Node) bool { return g.AnyExit()(n) && g.ExitClass(n) == rcA }
		if path := g.PathAvoiding(decodeFail, errExits, nil); path != nil || len(decodeFail) == 0 {
			tolerant = false
			loaderWitness = path
			lg = g
		}
	}
	// a creator that is a helper of the package (all its callers are functions of the package) is
	// judged in its callers, with the helper looked through: the rename may sit one level up
	{
		var roots []*ssa.Function
		seenR := map[*ssa.Function]bool{}
		var up func(f *ssa.Function, d int)
		up = func(f *ssa.Function, d int) {
			f = topParent(f)
			var callers []*ssa.Function
			for _, cl := range p.Funcs {
				if fnPkg(cl) == nil || fnPkg(cl).Pkg.Path() != cachePkg || cl.Blocks == nil {
					continue
				}
				if cl.Origin() != nil && cl.Origin() != cl {
					continue
				}
				for _, b := range cl.Blocks {
					for _, in := range b.Instrs {
						if call, ok := in.(*ssa.Call); ok {
							if cal := call.Common().StaticCallee(); cal != nil && (cal == f || (cal.Origin() != nil && cal.Origin() == f)) {
								callers = append(callers, cl)
							}
						}
					}
				}
			}
			exported := f.Object() != nil && f.Object().Exported()
			if len(callers) == 0 || exported || d >= 3 {
				if !seenR[f] {
					seenR[f] = true
					roots = append(roots, f)
				}
				return
			}
			for _, cl := range callers {
				up(cl, d+1)
			}
		}
		for _, w := range creators {
			up(w, 0)
		}
		// keep the innermost roots only: a root that merely calls another root adds nothing
		var keep []*ssa.Function
		for _, r := range roots {
			inner := false
			for _, o := range roots {
				if o != r {
					for _, cal := range staticCalleesOf(p, r) {
						if cal == o || (cal.Origin() != nil && cal.Origin() == o) {
							inner = true
						}
					}
				}
			}
			if !inner || callsNamed(r, func(n string) bool { return n == "os.Rename" }) {
				keep = append(keep, r)
			}
		}
		// the innermost function that both (transitively) creates and renames, else the creator itself
		var chosen []*ssa.Function
		for _, r := range keep {
			if callsNamed(r, func(n string) bool { return n == "os.Rename" }) {
				chosen = append(chosen, r)
			}
		}
		if len(chosen) > 0 {
			creators = chosen
		}
	}
	seen := map[*ssa.Function]bool{}
	for _, w := range creators {
		if seen[w] {
			continue
		}
		seen[w] = true
		g := BuildECFG(p, w, ownPkgOpts(cachePkg, 3))
		c.NoteGraph(g)
		isCreate := IsCall("os.Create", "os.OpenFile", "os.WriteFile")
		isRename := IsCall("os.Rename")
		inst := fnShort(w) + " ⟂ create→rename"
		atomic := false
		detail := ""
		creates := g.Select(isCreate)
		renames := g.Select(isRename)
		if len(renames) > 0 {
			// every success path from a create passes a rename whose source is the created path and whose destination is a different term
			path := g.MustFollow(isCreate, isRename, g.SuccessExits())
			okArgs := true
			for _, cr := range creates {
				for _, rn := range renames {
					if ArgTerm(cr, 0).String() != ArgTerm(rn, 0).String() || ArgTerm(rn, 0).String() == ArgTerm(rn, 1).String() {
						okArgs = false
						detail = "rename arguments do not move the created file onto a different final path"
					}
				}
			}
			atomic = path == nil && okArgs
			if path != nil {
				detail = "a success return is reachable after creating the file without renaming it"
			}
		} else {
			detail = "the file is created under its final path (truncating the previous copy) and written in place"
		}
		// the temporary name must stay private to the writer: a loader that falls back to it reads
		// exactly the file a crash leaves partial
		if atomic && !tolerant {
			tmpConsts := map[string]bool{}
			for _, cr := range creates {
				ArgTerm(cr, 0).Walk(func(t *Term) bool {
					if t.Op == "const" && strings.HasPrefix(t.Name, "\"") {
						tmpConsts[t.Name] = true
					}
					return true
				})
			}
			for _, l := range loaders {
				for _, b := range l.Blocks {
					for _, in := range b.Instrs {
						call, ok := in.(*ssa.Call)
						if !ok {
							continue
						}
						cn := commonName(call.Common())
						if cn != "os.Open" && cn != "os.ReadFile" && cn != "os.OpenFile" {
							continue
						}
						pt := TermOf(call.Common().Args[0], &Ctx{Fn: l})
						reads := ""
						pt.Walk(func(t *Term) bool {
							if t.Op == "const" && tmpConsts[t.Name] {
								reads = t.Name
							}
							return true
						})
						if reads != "" {
							atomic = false
							detail = "the loader " + fnShort(l) + " opens " + trunc(pt.String(), 60) + ", the writer's temporary name (" + reads + "): that is the file a crash during a save leaves partial"
						}
					}
				}
			}
		}
		// C04-R16: the temporary name is fixed, and a crash between creating it and the rename leaves
		// it behind. The next save must replace that leftover: an exclusive create (O_EXCL) fails on
		// it at every later shutdown, and the caches on disk stay frozen at the crash.
		if len(renames) > 0 {
			for _, cr := range creates {
				if CallName(cr) != "os.OpenFile" {
					c.OK("C04-R16", fnShort(w)+" ⟂ temporary file replaces a leftover", fnName(w), p.InstrPos(cr.In), CallName(cr)+" truncates whatever is at the name", true)
					continue
				}
				ft := ArgTerm(cr, 1)
				var flags int64
				known := ft != nil && ft.unconv().Op == "const"
				if known {
					if _, err := fmt.Sscan(ft.unconv().Name, &flags); err != nil {
						known = false
					}
				}
				isRemoveSame := func(n *Node) bool {
					return (CallName(n) == "os.Remove" || CallName(n) == "os.RemoveAll") && ArgTerm(n, 0).String() == ArgTerm(cr, 0).String()
				}
				switch {
				case !known:
					c.Unk("C04-R16", fnShort(w)+" ⟂ temporary file replaces a leftover", fnName(w), p.InstrPos(cr.In), "the open flags are not a constant: "+trunc(ft.String(), 60))
				case flags&int64(syscall.O_EXCL) != 0 && g.PathAvoiding([]*Node{g.Entry}, nodeSet([]*Node{cr}), isRemoveSame) != nil:
					c.Bad("C04-R16", fnShort(w)+" ⟂ temporary file replaces a leftover", fnName(w), p.InstrPos(cr.In), "the temporary file is created exclusively (O_EXCL) and nothing removes a leftover first: the file a crash between create and rename leaves behind makes every later save fail, so the on-disk caches never change again", nil)
				case flags&int64(syscall.O_EXCL) == 0 && flags&int64(syscall.O_TRUNC) == 0:
					c.Bad("C04-R16", fnShort(w)+" ⟂ temporary file replaces a leftover", fnName(w), p.InstrPos(cr.In), "the temporary file is opened without O_TRUNC: a longer leftover of a crashed save keeps its tail, and the renamed file does not decode", nil)
				default:
					c.OK("C04-R16", fnShort(w)+" ⟂ temporary file replaces a leftover", fnName(w), p.InstrPos(cr.In), "leftover replaced (truncating open, or removed before an exclusive create)", true)
				}
			}
		}
		switch {
		case atomic:
			c.OK(rule, inst, fnName(w), posOf(g, isCreate), "file is written under a temporary name and renamed onto the final path on every success path", true)
		case tolerant:
			c.OK(rule, inst, fnName(w), posOf(g, isCreate), "writer is not atomic but the loader tolerates an undecodable file", true)
		default:
			var desc []string
			if lg != nil && loaderWitness != nil {
				desc = lg.DescribePath(loaderWitness)
			}
			c.Bad(rule, inst, fnName(w), posOf(g, isCreate), detail+"; and the loader returns an error on a decode failure, which is fatal to NewManager: a crash while the cache is written blocks every later start", desc)
		}
	}
}

// rulePersistedStateLoadable (C04-R6): writer/reader agreement for the persisted chain state.
// The loader refuses a stored state whose last block height is below a threshold relative to the
// genesis initial height; every state the node persists must pass that test, otherwise a crash
// after the write leaves a store the node can never start from. A persisted state is either the
// state of an applied block (NextState, whose height is a block height) or a literal whose
// LastBlockHeight is InitialHeight+k, compared with the threshold.
func rulePersistedStateLoadable(c *Check, p *Prog, rule string) {
	c.Doc(rule, "CS+VP: every persisted state (Store.UpdateState call sites, argument traced to NextState or a literal) satisfies the loader's refusal test on LastBlockHeight vs InitialHeight.")
	var loader *ssa.Function
	for _, f := range funcsCalling(p, rootPath+"/block", func(n string) bool { return n == storeM("GetState") }) {
		if strings.HasPrefix(resultTypes(f), rootPath+"/types.State") {
			loader = f
		}
	}
	if loader == nil {
		c.Unk(rule, "state-loader", "", "", "anchor lost: the function of the block package that loads the state (Store.GetState) and returns it")
		return
	}
	// offset form: term = base + k
	offsetOf := func(t *Term, base string) (int64, bool) {
		t = t.unconv()
		if t.Op == "field" && t.Name == base {
			return 0, true
		}
		if t.Op == "bin" && (t.Name == "+" || t.Name == "-") {
			l, r := t.Args[0].unconv(), t.Args[1].unconv()
			if l.Op == "field" && l.Name == base && r.Op == "const" {
				var k int64
				if _, err := fmt.Sscan(r.Name, &k); err == nil {
					if t.Name == "-" {
						k = -k
					}
					return k, true
				}
			}
		}
		return 0, false
	}
	g := BuildECFG(p, loader, ExpandOpts{MaxDepth: 0})
	c.NoteGraph(g)
	// the refusal test: an edge whose every reachable exit is an error return
	threshold, haveT := int64(0), false
	var tpos string
	for _, e := range g.Select(EdgeWhere(func(t *Term, pol bool, n *Node) bool { return t.Op == "bin" })) {
		t, pol := CondTerm(e)
		if !pol {
			continue
		}
		var a, b int64
		var okA, okB bool
		op := t.Name
		if a, okA = offsetOf(t.Args[0], "InitialHeight"); okA {
			b, okB = offsetOf(t.Args[1], "LastBlockHeight")
		} else if b, okB = offsetOf(t.Args[0], "LastBlockHeight"); okB {
			a, okA = offsetOf(t.Args[1], "InitialHeight")
			op = map[string]string{"<": ">", "<=": ">=", ">": "<", ">=": "<="}[op]
		}
		if !okA || !okB {
			continue
		}
		allErr := true
		reach := g.Reachable([]*Node{e}, nil)
		for _, x := range g.Exits {
			if reach[x] && g.ExitClass(x) != rcA {
				allErr = false
			}
		}
		if !allErr {
			continue
		}
		// refuse iff I+a op L+b
		switch op {
		case ">":
			threshold, haveT = a-b, true
		case ">=":
			threshold, haveT = a-b+1, true
		}
		tpos = p.InstrPos(e.In)
	}
	if !haveT {
		c.OK(rule, "loader ⟂ refusal-test", fnName(loader), p.Pos(loader.Pos()), "the loader refuses no stored state by its height", true)
	} else {
		c.OK(rule, "loader ⟂ refusal-test", fnName(loader), tpos, fmt.Sprintf("a stored state is accepted iff LastBlockHeight >= InitialHeight%+d", threshold), true)
	}
	// persisted states
	isNext := func(t *Term) bool { return t.IsCall("types.State).NextState") }
	n := 0
	var trace func(v ssa.Value, fn *ssa.Function, depth int) (string, bool)
	trace = func(v ssa.Value, fn *ssa.Function, depth int) (string, bool) {
		t := TermOf(v, &Ctx{Fn: fn})
		if p.DeepContains(t, isNext, 3) {
			if haveT && threshold > 0 {
				return fmt.Sprintf("the state of an applied block (NextState), whose LastBlockHeight is the block's height — InitialHeight for the first block — but the loader accepts only LastBlockHeight >= InitialHeight%+d: a node stopped while its state is the first block's cannot be started again", threshold), false
			}
			return "the state of an applied block (NextState; LastBlockHeight = the block's height >= InitialHeight)", true
		}
		if lv := structLitField(v, "LastBlockHeight"); lv != nil {
			lt := TermOf(lv, &Ctx{Fn: fn})
			if k, ok := offsetOf(lt, "InitialHeight"); ok {
				if !haveT || k >= threshold {
					return fmt.Sprintf("a literal with LastBlockHeight = InitialHeight%+d, which the loader accepts", k), true
				}
				return fmt.Sprintf("a literal with LastBlockHeight = InitialHeight%+d, which the loader refuses (it accepts only LastBlockHeight >= InitialHeight%+d): after this write the node cannot be started again until a block's state replaces it", k, threshold), false
			}
			return "a literal whose LastBlockHeight is " + trunc(lt.String(), 60), !haveT
		}
		// a parameter spilled to a local (its address is taken)
		if u, ok := v.(*ssa.UnOp); ok {
			if al, ok := u.X.(*ssa.Alloc); ok {
				var stored []ssa.Value
				for _, r := range *al.Referrers() {
					if st, ok := r.(*ssa.Store); ok && st.Addr == ssa.Value(al) {
						stored = append(stored, st.Val)
					}
				}
				if len(stored) == 1 {
					if _, isP := stored[0].(*ssa.Parameter); isP {
						v = stored[0]
					}
				}
			}
		}
		if prm, ok := v.(*ssa.Parameter); ok && depth < 3 {
			idx := -1
			for i, q := range fn.Params {
				if q == prm {
					idx = i
				}
			}
			why, all, any := "", true, false
			for _, caller := range callersOf(p, fn) {
				for _, b := range caller.Blocks {
					for _, in := range b.Instrs {
						call, ok := in.(*ssa.Call)
						if !ok || call.Common().StaticCallee() != fn || idx >= len(call.Common().Args) {
							continue
						}
						any = true
						w, ok2 := trace(call.Common().Args[idx], caller, depth+1)
						if !ok2 {
							return w + " (passed by " + fnShort(caller) + ")", false
						}
						why = w
						_ = all
					}
				}
			}
			if any {
				return why, true
			}
		}
		if u, ok := v.(*ssa.UnOp); ok {
			if fa, ok := u.X.(*ssa.FieldAddr); ok && fieldLabel(fa.X.Type(), fa.Field) == "lastState" {
				return "the manager's current state (loaded through the loader or produced by an applied block)", true
			}
		}
		return "a state of unknown origin: " + trunc(t.String(), 80), false
	}
	for _, fn := range p.Funcs {
		pk := fnPkg(fn)
		if pk == nil || !strings.HasPrefix(pk.Pkg.Path(), rootPath) || strings.HasSuffix(pk.Pkg.Path(), "/pkg/store") {
			continue
		}
		for _, b := range fn.Blocks {
			for _, in := range b.Instrs {
				call, ok := in.(*ssa.Call)
				if !ok || commonName(call.Common()) != storeM("UpdateState") {
					continue
				}
				n++
				why, ok2 := trace(call.Common().Args[len(call.Common().Args)-1], fn, 0)
				inst := fnShort(fn) + " ⟂ persisted-state-is-loadable"
				if ok2 {
					c.OK(rule, inst, fnName(fn), p.InstrPos(in), "the persisted state is "+why, true)
				} else {
					c.Bad(rule, inst, fnName(fn), p.InstrPos(in), "the persisted state is "+why, nil)
				}
			}
		}
	}
	if n == 0 {
		c.Unk(rule, "UpdateState-sites", "", "", "anchor lost: no Store.UpdateState call site")
	}
	c.MinInstances(rule, 2)
}

// ruleNoDroppedLayerErrors: every call, in the given packages, of a method of another layer's
// interface (store, datastore, executor, sequencer, DA) whose last result is an error uses that
// result (a branch, a return, a log argument …). Reports each call site that discards it.
func ruleNoDroppedLayerErrors(c *Check, p *Prog, rule string, pkgs []string) {
	layer := func(name string) bool {
		for _, pre := range []string{"(" + rootPath + "/pkg/store.Store).", "(" + rootPath + "/core/execution.Executor).", "(" + rootPath + "/core/sequencer.Sequencer).", "(" + rootPath + "/core/da.DA).", "(github.com/ipfs/go-datastore."} {
			if strings.HasPrefix(name, pre) {
				return true
			}
		}
		return false
	}
	inPkgs := map[string]bool{}
	for _, k := range pkgs {
		inPkgs[k] = true
	}
	perPkg := map[string]int{}
	for _, fn := range p.Funcs {
		pk := fnPkg(fn)
		if pk == nil || !inPkgs[pk.Pkg.Path()] {
			continue
		}
		for _, b := range fn.Blocks {
			for _, in := range b.Instrs {
				var cc *ssa.CallCommon
				var val ssa.Value
				deferred := false
				switch x := in.(type) {
				case *ssa.Call:
					cc, val = x.Common(), x
				case *ssa.Defer:
					cc, deferred = x.Common(), true
				case *ssa.Go:
					cc, deferred = x.Common(), true
				}
				if cc == nil || !cc.IsInvoke() || !layer(commonName(cc)) {
					continue
				}
				res := cc.Signature().Results()
				if res.Len() == 0 || res.At(res.Len()-1).Type().String() != "error" {
					continue
				}
				name := commonName(cc)
				if strings.HasSuffix(name, ".Close") && deferred {
					continue // closing a read handle: nothing was written through it
				}
				perPkg[pk.Pkg.Path()]++
				used := false
				if !deferred && val != nil {
					if res.Len() == 1 {
						used = len(*val.Referrers()) > 0
					} else {
						for _, r := range *val.Referrers() {
							if ex, ok := r.(*ssa.Extract); ok && ex.Index == res.Len()-1 && len(*ex.Referrers()) > 0 {
								used = true
							}
						}
					}
				}
				// debug references do not count as uses
				if used && res.Len() == 1 {
					used = false
					for _, r := range *val.Referrers() {
						if _, dbg := r.(*ssa.DebugRef); !dbg {
							used = true
						}
					}
				}
				if !used {
					c.Bad(rule, fnShort(fn)+" ⟂ discards error of "+shortName(name), fnName(fn), p.InstrPos(in), "the error of "+shortName(name)+" is discarded: the step continues as if the operation had succeeded", nil)
				}
			}
		}
	}
	for _, k := range pkgs {
		if perPkg[k] == 0 {
			c.Unk(rule, shortName(k)+" ⟂ layer-calls", "", "", "anchor lost: no call of another layer's interface found in "+k)
			continue
		}
		c.OK(rule, shortName(k)+" ⟂ no-layer-error-discarded", "", "", fmt.Sprintf("%d calls of store / datastore / executor / sequencer / DA methods returning an error; the error is used at every one not reported", perPkg[k]), true)
	}
	c.MinInstances(rule, len(pkgs))
}

// ruleMarksAfterItems (C05-R6 / C02-R10): the sync loop refuses every event whose hash is marked
// "seen", trusting that the item is in the cache. On disk the marks and the items are separate
// files, each replaced atomically, and the loader tolerates a missing file. The file of marks is
// therefore written only after the files of the items were written successfully: a save cut short
// between the files (shutdown grace period over, disk full) leaves items without marks — harmless
// — never a mark without its item, which would be refused on every redelivery for good.
func ruleMarksAfterItems(c *Check, p *Prog, rule string) {
	c.Doc(rule, "EO: the cache saver writes the file of seen-marks only after every file of cached items was written successfully (a mark never reaches disk without the item it stands for).")
	n := 0
	for _, fn := range p.GenericReps("(*" + rootPath + "/pkg/cache.Cache[_]).SaveToDisk") {
		g := BuildECFG(p, fn, ExpandOpts{MaxDepth: 0})
		c.NoteGraph(g)
		// the writes, by the kind of map they persist: items map[_]*T, marks map[string]bool
		kindOf := func(nd *Node) string {
			cc := CallCommonOf(nd)
			if cc == nil || cc.StaticCallee() == nil || !p.InRepo(cc.StaticCallee()) || len(cc.Args) < 2 {
				return ""
			}
			// the map handed to the file writer, whichever position it has
			var mt *types.Map
			for _, a := range cc.Args {
				if m, ok := a.Type().Underlying().(*types.Map); ok {
					mt = m
				}
			}
			if mt == nil {
				return ""
			}
			switch e := mt.Elem().Underlying().(type) {
			case *types.Pointer:
				return "items"
			case *types.Basic:
				if e.Kind() == types.Bool {
					return "marks"
				}
			}
			return ""
		}
		items := g.Select(func(nd *Node) bool { return kindOf(nd) == "items" })
		marks := g.Select(func(nd *Node) bool { return kindOf(nd) == "marks" })
		if len(items) == 0 || len(marks) == 0 {
			c.Unk(rule, "SaveToDisk ⟂ writes", genericName(fnName(fn)), "", fmt.Sprintf("anchor lost: %d item-file writes, %d mark-file writes in the cache saver", len(items), len(marks)))
			continue
		}
		for i, it := range items {
			it := it
			n++
			okEdge := g.Select(ErrNilEdge(func(t *Term) bool { return t.V == it.In.(ssa.Value) }))
			inst := fmt.Sprintf("SaveToDisk ⟂ items-file-%d written before the marks", i+1)
			if len(okEdge) == 0 {
				// the result is returned directly (last write) or not checked
				c.Bad(rule, inst, genericName(fnName(fn)), p.InstrPos(it.In), "the outcome of writing an items file is not tested before the function goes on: the marks can be written although the items were not", nil)
				continue
			}
			c.Decide(rule, inst, genericName(fnName(fn)), p.InstrPos(it.In), "the marks are written only after this items file was written successfully",
				"the file of seen-marks can be written before (or without) this file of items: a save interrupted in between leaves a mark whose item is gone — the sync loop refuses that header/data on every redelivery and the node never applies the height", g, g.MustPrecede(nodeSet(okEdge), nodeSet(marks)))
		}
		break // instantiations share the shape
	}
	if n == 0 {
		c.Unk(rule, "anchor-count", "", "", "anchor lost: the cache saver was not found")
	}
}

// ruleVerifyHookAdjacency (C04-R8): the last thing the production step does with a committed block
// is to publish its header and its data through go-header, which verifies each new item against
// the head of its own P2P store by calling the item type's Verify hook. After a crash (or a stop)
// between the commit of block h and its publication that head is h-1 while the next item is h+1:
// the hook is then asked about a non-adjacent pair. A hook that compares the "last hash" link for
// such a pair fails, the publication fails, the production step returns that error and the node
// halts — after every restart. Every Verify hook of the published types therefore compares the
// link only under a test that the two heights are adjacent.
func ruleVerifyHookAdjacency(c *Check, p *Prog, rule string) {
	c.Doc(rule, "GA+siblings: every go-header Verify hook of the item types the producer publishes (signed header, data) rejects on a mismatch of the previous-hash link only under trusted.Height()+1 == untrusted.Height(): after a crash between commit and publication the library offers a non-adjacent pair, and a rejection there makes every later production step fail.")
	tp := p.TypesPkg(rootPath + "/types")
	if tp == nil {
		c.Unk(rule, "types", "", "", "anchor lost: package types")
		return
	}
	n := 0
	for _, name := range tp.Scope().Names() {
		tn, ok := tp.Scope().Lookup(name).(*types.TypeName)
		if !ok {
			continue
		}
		ms := types.NewMethodSet(types.NewPointer(tn.Type()))
		var verify *types.Func
		hasLast := false
		for i := 0; i < ms.Len(); i++ {
			f, _ := ms.At(i).Obj().(*types.Func)
			if f == nil {
				continue
			}
			sig := f.Type().(*types.Signature)
			if f.Name() == "Verify" && sig.Params().Len() == 1 && sig.Results().Len() == 1 && types.Identical(sig.Params().At(0).Type(), types.NewPointer(tn.Type())) {
				verify = f
			}
			if f.Name() == "LastHeader" {
				hasLast = true
			}
		}
		if verify == nil || !hasLast {
			continue
		}
		fn := p.SSA.FuncValue(verify)
		if fn == nil || fn.Blocks == nil || fn.Synthetic != "" {
			continue
		}
		n++
		g := BuildECFG(p, fn, ownPkgOpts(rootPath+"/types", 2))
		c.NoteGraph(g)
		recv, other := fn.Params[0].Name(), fn.Params[1].Name()
		isLast := func(t *Term) bool {
			return t.Contains(func(x *Term) bool {
				if x.Op == "field" && strings.HasPrefix(x.Name, "Last") && strings.HasPrefix(x.String(), other+".") {
					return true
				}
				return (x.Op == "call" || x.Op == "invoke") && strings.HasSuffix(x.Name, ").LastHeader") && len(x.Args) > 0 && strings.HasPrefix(x.Args[0].String(), other)
			})
		}
		mismatch := g.Select(EdgeWhere(func(t *Term, pol bool, nd *Node) bool {
			t, pol = normFact(t, pol)
			return !pol && t.IsCall("bytes.Equal") && len(t.Args) == 2 && (isLast(t.Args[0]) || isLast(t.Args[1]))
		}))
		inst := tn.Name() + ".Verify ⟂ link compared only for adjacent heights"
		if len(mismatch) == 0 {
			c.OK(rule, inst, fnName(fn), p.Pos(fn.Pos()), "the hook does not compare the previous-hash link", true)
			continue
		}
		isHeightOf := func(t *Term, who string) bool {
			t = t.unconv()
			return (t.Op == "call" || t.Op == "invoke") && strings.HasSuffix(t.Name, ").Height") && len(t.Args) > 0 && (t.Args[0].String() == who || strings.HasPrefix(t.Args[0].String(), who+"."))
		}
		adjacent := g.GuardEdges(func(t *Term, pol bool) bool {
			a, op, b, ok := canonCmp(t, pol)
			if !ok || op != "==" {
				return false
			}
			plus1 := func(x *Term, who string) bool {
				x = x.unconv()
				return x.Op == "bin" && x.Name == "+" && x.Args[1].unconv().Name == "1" && isHeightOf(x.Args[0], who)
			}
			return (plus1(a, recv) && isHeightOf(b, other)) || (plus1(b, recv) && isHeightOf(a, other))
		})
		c.Decide(rule, inst, fnName(fn), p.InstrPos(mismatch[0].In), "a mismatch of the link is looked at only when the untrusted item is the direct successor",
			"the hook rejects a mismatch of the previous-hash link also for non-adjacent heights: after a crash or stop between the commit of a block and its publication, the next item is offered against a head two behind, the publication fails with \"validation failed\", the production step returns the error and the node halts after every restart",
			g, g.MustPrecede(nodeSet(adjacent), nodeSet(mismatch)))
	}
	if n < 2 {
		c.Unk(rule, "anchor-count", "", "", fmt.Sprintf("anchor lost: %d Verify hooks of published item types found (signed header and data expected)", n))
	}
}

// rulePublisherSeedsEmptyStore (C04-R9): the publisher starts go-header's syncer on first use, and
// the syncer needs a head in the P2P store. The store is seeded by Init. A sequencer that was
// stopped after committing its first block and before publishing it restarts with an empty P2P
// store and a later height to publish: if the store is seeded only for the item at the initial
// height, the syncer cannot start ("no chain head"), the publication fails, the production step
// returns the error and the node halts — after every restart. So every path of the publisher to
// the start of the syncer passes a successful Init of the store or a test showing the store is
// not empty.
func rulePublisherSeedsEmptyStore(c *Check, p *Prog, rule string) {
	c.Doc(rule, "EO+GA: in the P2P publisher the syncer is started only after the P2P store was seeded successfully (Init) or found non-empty — whatever the height of the item being published (a crash between the commit of the first block and its publication leaves the store empty for good).")
	n := 0
	for _, fn := range p.GenericReps("(*" + rootPath + "/pkg/sync.SyncService[_]).WriteToStoreAndBroadcast") {
		g := BuildECFG(p, fn, ExpandOpts{MaxDepth: 0})
		c.NoteGraph(g)
		starts := g.Select(func(nd *Node) bool {
			return strings.HasSuffix(genericName(CallName(nd)), "SyncService[_]).StartSyncer")
		})
		if len(starts) == 0 {
			c.Unk(rule, "publisher ⟂ StartSyncer", genericName(fnName(fn)), "", "anchor lost: the publisher does not start the syncer")
			break
		}
		n++
		initOK := g.Select(ErrNilEdge(func(t *Term) bool { return (t.Op == "invoke" || t.Op == "call") && strings.HasSuffix(t.Name, ").Init") }))
		isHeight := func(t *Term) bool {
			t = t.unconv()
			return (t.Op == "invoke" || t.Op == "call") && strings.HasSuffix(t.Name, ").Height") && len(t.Args) > 0 && strings.HasSuffix(t.Args[0].String(), ".store")
		}
		nonEmpty := g.GuardEdges(func(t *Term, pol bool) bool {
			a, op, b, ok := canonCmp(t, pol)
			if !ok {
				return false
			}
			// 0 < store.Height()   or   store.Height() != 0
			return (op == "<" && a.unconv().Name == "0" && isHeight(b)) || (op == "!=" && ((isHeight(a) && b.unconv().Name == "0") || (isHeight(b) && a.unconv().Name == "0")))
		})
		c.Decide(rule, "publisher ⟂ store seeded before the syncer starts", genericName(fnName(fn)), p.InstrPos(starts[0].In), "the syncer is started only after Init succeeded or the store was found non-empty",
			"the syncer can be started over an empty P2P store (the store is seeded only for the item at the initial height): a sequencer stopped between the commit of its first block and its publication fails every later publication with \"no chain head\" and halts after every restart",
			g, g.MustPrecede(orPred(nodeSet(initOK), nodeSet(nonEmpty)), nodeSet(starts)))
		break
	}
	if n == 0 {
		c.Unk(rule, "anchor-count", "", "", "anchor lost: the P2P publisher was not found")
	}
}

// ruleConstructorToleratesAbsentCursor (C04-R12): the batch cursor (metadata written when a batch
// is taken from the sequencing layer) first reaches the disk with the second block: the first
// block is the genesis block found pending, for which no batch is taken. A sequencer that stops
// after its first block therefore restarts with a chain height above zero and no cursor on disk.
// The constructor reads the cursor; a failed read (absent key) must not make it fail — nothing but
// producing the next block could ever create the key.
func ruleConstructorToleratesAbsentCursor(c *Check, p *Prog, rule string) {
	c.Doc(rule, "GA: in the manager's constructor a failed read of the batch-cursor metadata never leads to an error return (the key is absent until the second block: a sequencer stopped after its first block must start again).")
	nm := p.Func(rootPath + "/block.NewManager")
	if nm == nil {
		c.Unk(rule, "NewManager", "", "", "anchor lost: the manager's constructor")
		return
	}
	g := BuildECFG(p, nm, ExpandOpts{MaxDepth: 0})
	c.NoteGraph(g)
	lastKey, _ := constString(p, rootPath+"/pkg/store", "LastBatchDataKey")
	isKey := func(t *Term) bool {
		return t != nil && (strings.Contains(t.String(), "LastBatchDataKey") || (lastKey != "" && t.unconv().Op == "const" && t.unconv().Name == fmt.Sprintf("%q", lastKey)))
	}
	isCursorRead := func(t *Term) bool {
		return (t.Op == "invoke" || t.Op == "call") && strings.HasSuffix(t.Name, "pkg/store.Store).GetMetadata") && len(t.Args) >= 3 && isKey(t.Args[2])
	}
	failed := g.Select(ErrNotNilEdge(isCursorRead))
	reads := g.Select(func(n *Node) bool {
		return CallName(n) == storeM("GetMetadata") && isKey(ArgTerm(n, 1))
	})
	inst := "NewManager ⟂ absent batch cursor is tolerated"
	switch {
	case len(reads) == 0:
		c.OK(rule, inst, fnName(nm), p.Pos(nm.Pos()), "the constructor does not read the batch cursor", true)
	case len(failed) == 0:
		c.OK(rule, inst, fnName(nm), p.InstrPos(reads[0].In), "the error of the cursor read decides nothing", true)
	default:
		errExit := func(n *Node) bool { return g.AnyExit()(n) && g.ExitClass(n) == rcA }
		// an error return that is reached from the failed read without passing another call's own failure
		otherFail := g.Select(EdgeWhere(func(t *Term, pol bool, nd *Node) bool {
			t, pol = normFact(t, pol)
			if t.Op != "bin" || len(t.Args) != 2 || t.Args[1].Name != "nil" || (t.Name != "!=" && t.Name != "==") {
				return false
			}
			a := t.Args[0]
			if a.Op == "extract" && len(a.Args) > 0 {
				a = a.Args[0]
			}
			return ((t.Name == "!=") == pol) && (a.Op == "call" || a.Op == "invoke") && !isCursorRead(a)
		}))
		c.Decide(rule, inst, fnName(nm), p.InstrPos(reads[0].In), "after a failed cursor read the constructor fails only if something else fails",
			"the constructor returns an error because the batch cursor could not be read: the key does not exist until the second block takes a batch, so a sequencer that stopped after its first block can never be started again (only producing a block would create the key)",
			g, g.PathAvoiding(failed, errExit, nodeSet(otherFail)))
	}
}

// ruleFirstStartRepeatable (C04-R15): a chain's first start is not atomic — NewManager records
// the height below the initial one, the genesis placeholder block is saved, and the first state
// is persisted only when the first block is finished. Until then every start finds "no state"
// again and has to be able to do the same again: on the not-found branch of the state loader an
// error is returned only when something underneath failed, never on a condition of the loader's
// own about what the store already holds (a recorded height, a saved block).
func ruleFirstStartRepeatable(c *Check, p *Prog, rule string) {
	c.Doc(rule, "GA: in the initial-state loader, from the edge that found no stored state, every error return is behind the failure of a call underneath (InitChain, signer, save): the loader does not refuse to initialise on account of what else the store holds — a crash before the first state write would otherwise make every later start fail.")
	fn := p.Func(blockF("getInitialState"))
	if fn == nil {
		for _, f := range funcsCalling(p, rootPath+"/block", func(n string) bool { return strings.HasSuffix(n, "execution.Executor).InitChain") }) {
			fn = f
		}
	}
	if fn == nil {
		c.Unk(rule, "initial-state loader", "", "", "anchor lost: the function that calls InitChain")
		return
	}
	g := BuildECFG(p, fn, ExpandOpts{MaxDepth: 0})
	c.NoteGraph(g)
	notFound := g.Select(EdgeWhere(func(t *Term, pol bool, _ *Node) bool {
		t, pol = normFact(t, pol)
		return pol && t.IsCall("errors.Is") && strings.Contains(t.String(), "Store).GetState") && strings.Contains(t.String(), "ErrNotFound")
	}))
	if len(notFound) == 0 {
		c.Unk(rule, fnShort(fn)+" ⟂ first start repeatable", fnName(fn), "", "anchor lost: the not-found edge of the state read")
		return
	}
	failed := g.Select(EdgeWhere(func(t *Term, pol bool, nd *Node) bool {
		t, pol = normFact(t, pol)
		if t.Op != "bin" || len(t.Args) != 2 || t.Args[1].Name != "nil" || (t.Name != "!=" && t.Name != "==") {
			return false
		}
		notNil := (t.Name == "!=") == pol
		a := t.Args[0]
		if a.Op == "extract" && len(a.Args) > 0 {
			a = a.Args[0]
		}
		return notNil && (a.Op == "call" || a.Op == "invoke" || a.Op == "dyncall")
	}))
	var errExits []*Node
	for _, x := range g.Exits {
		if g.ExitClass(x) != rcA {
			continue
		}
		ret := x.In.(*ssa.Return)
		rt := TermOf(spilledResult(ret, len(ret.Results)-1), x.Ctx)
		if (rt.Op == "call" || rt.Op == "invoke" || rt.Op == "extract") && !rt.IsCall("fmt.Errorf") && !rt.IsCall("errors.New") && !rt.IsCall("errors.Join") {
			continue
		}
		errExits = append(errExits, x)
	}
	c.Decide(rule, fnShort(fn)+" ⟂ first start repeatable", fnName(fn), p.InstrPos(notFound[0].In),
		"with no stored state, initialisation fails only when a call underneath fails",
		"with no state in the store the loader can return an error although nothing underneath failed — it refuses to initialise on a condition of its own (what the store already records). Between the first start's height write and the first block's state write the store legitimately holds a height (and a genesis block) but no state: a stop or crash in that window makes every later start fail", g,
		g.PathAvoiding(notFound, nodeSet(errExits), nodeSet(failed)))
}
