package main

import (
	"encoding/json"
	"fmt"
	"os"
	"path/filepath"
	"sort"
	"strings"
	"time"
)

type Verdict string

const (
	Discharged Verdict = "discharged"
	Violated   Verdict = "violated"
	Known      Verdict = "known"
	Undecided  Verdict = "undecided"
)

// Obligation is one rule instance. Instance is a key made of rule + construct (function,
// salient callee / field, ordinal) and never contains a line number.
type Obligation struct {
	Rule       string   `json:"rule"`
	Instance   string   `json:"instance"`
	Func       string   `json:"function,omitempty"`
	Pos        string   `json:"pos,omitempty"`
	Verdict    Verdict  `json:"verdict"`
	Detail     string   `json:"detail,omitempty"`
	Path       []string `json:"path,omitempty"`
	Nontrivial bool     `json:"nontrivial"`
}

type KnownFinding struct {
	Property  string `json:"property"`
	Rule      string `json:"rule"`
	Construct string `json:"construct"`
	Status    string `json:"status"` // "known" | "fixed"
	Commit    string `json:"commit,omitempty"`
	What      string `json:"what"`
}

type Stats struct {
	Modules   []string `json:"modules"`
	Packages  int      `json:"packages"`
	Functions int      `json:"functions"`
	ECFGs     int      `json:"ecfgs_built"`
	ECFGNodes int      `json:"ecfg_nodes"`
	CallSites int      `json:"call_sites_visited"`
}

type Check struct {
	Prop  string
	Tier  string
	W     *World
	Obls  []*Obligation
	Stats Stats
	// per-rule documentation for the evidence file
	RuleDocs    map[string]string
	Explanation string
	NotDecided  string
	Assumptions []string
	Variants    []variantResult
	known       []KnownFinding
	minInst     map[string]int
	seenInst    map[string]bool
}

func (c *Check) Thorough() bool { return c.Tier == "thorough" }

func (c *Check) Mod(name string) *Prog {
	_, loaded := c.W.progs[name]
	p := c.W.Mod(name)
	if !loaded {
		c.Stats.Modules = append(c.Stats.Modules, name)
		c.Stats.Packages += len(p.Pkgs)
		c.Stats.Functions += len(p.Funcs)
	}
	return p
}

func (c *Check) Doc(rule, text string) {
	if c.RuleDocs == nil {
		c.RuleDocs = map[string]string{}
	}
	c.RuleDocs[rule] = text
}

func (c *Check) add(o *Obligation) *Obligation {
	if c.seenInst == nil {
		c.seenInst = map[string]bool{}
	}
	key := o.Rule + "|" + o.Instance
	if c.seenInst[key] {
		// keep instance keys unique: append an ordinal
		for i := 2; ; i++ {
			k2 := fmt.Sprintf("%s#%d", o.Instance, i)
			if !c.seenInst[o.Rule+"|"+k2] {
				o.Instance = k2
				key = o.Rule + "|" + k2
				break
			}
		}
	}
	c.seenInst[key] = true
	if o.Verdict == Violated {
		for _, k := range c.known {
			if k.Status == "known" && k.Property == c.Prop && k.Rule == o.Rule && k.Construct == o.Instance {
				o.Verdict = Known
				o.Detail = "KNOWN-FINDING: " + k.What + " — " + o.Detail
			}
		}
	}
	c.Obls = append(c.Obls, o)
	return o
}

func (c *Check) OK(rule, instance, fn, pos, detail string, nontrivial bool) {
	c.add(&Obligation{Rule: rule, Instance: instance, Func: shortName(fn), Pos: pos, Verdict: Discharged, Detail: detail, Nontrivial: nontrivial})
}

func (c *Check) Bad(rule, instance, fn, pos, detail string, path []string) {
	c.add(&Obligation{Rule: rule, Instance: instance, Func: shortName(fn), Pos: pos, Verdict: Violated, Detail: detail, Path: path, Nontrivial: true})
}

func (c *Check) Unk(rule, instance, fn, pos, detail string) {
	c.add(&Obligation{Rule: rule, Instance: instance, Func: shortName(fn), Pos: pos, Verdict: Undecided, Detail: detail, Nontrivial: true})
}

// Decide records discharged when path == nil, violated with the witness otherwise.
func (c *Check) Decide(rule, instance, fn, pos, okDetail, badDetail string, g *Graph, path []*Node) bool {
	if path == nil {
		c.OK(rule, instance, fn, pos, okDetail, true)
		return true
	}
	var desc []string
	if g != nil {
		desc = g.DescribePath(path)
	}
	c.Bad(rule, instance, fn, pos, badDetail, desc)
	return false
}

// MinInstances: the rule must have produced at least n obligations (the number confirmed by
// hand on the pinned tree); otherwise the anchor was lost and the check fails as undecided.
func (c *Check) MinInstances(rule string, n int) {
	if c.minInst == nil {
		c.minInst = map[string]int{}
	}
	c.minInst[rule] = n
}

func (c *Check) NoteGraph(g *Graph) {
	c.Stats.ECFGs++
	c.Stats.ECFGNodes += len(g.Nodes)
	for _, n := range g.Nodes {
		if CallCommonOf(n) != nil {
			c.Stats.CallSites++
		}
	}
}

func (c *Check) finish() {
	counts := map[string]int{}
	for _, o := range c.Obls {
		counts[o.Rule]++
	}
	for _, r := range sortedKeys(c.minInst) {
		// the floor guards against a rule that silently matches (almost) nothing; it is not an
		// exact count: helpers may merge call sites, so larger counts get a margin
		floor := c.minInst[r]
		if floor > 3 {
			floor = (floor*7 + 9) / 10
		}
		if counts[r] < floor {
			c.Unk(r, "anchor-count", "", "", fmt.Sprintf("anchor lost: rule produced %d instances, %d were confirmed by hand on the pinned tree (floor %d)", counts[r], c.minInst[r], floor))
		}
	}
}

func loadKnown(path string) []KnownFinding {
	b, err := os.ReadFile(path)
	if err != nil {
		if os.IsNotExist(err) {
			return nil
		}
		fatalBroken("known findings: %v", err)
	}
	var f struct {
		Findings []KnownFinding `json:"findings"`
	}
	if err := json.Unmarshal(b, &f); err != nil {
		fatalBroken("known findings: %v", err)
	}
	return f.Findings
}

// writeEvidence writes the evidence file and returns the number of violations (violated + undecided).
func (c *Check) writeEvidence(out string, wall time.Duration, seed int) int {
	n := map[Verdict]int{}
	distinct := map[string]bool{}
	for _, o := range c.Obls {
		n[o.Verdict]++
		if o.Nontrivial {
			distinct[o.Rule+"|"+o.Instance] = true
		}
	}
	sort.SliceStable(c.Obls, func(i, j int) bool {
		if c.Obls[i].Rule != c.Obls[j].Rule {
			return ruleLess(c.Obls[i].Rule, c.Obls[j].Rule)
		}
		return c.Obls[i].Instance < c.Obls[j].Instance
	})
	rules := map[string]map[string]int{}
	for _, o := range c.Obls {
		if rules[o.Rule] == nil {
			rules[o.Rule] = map[string]int{}
		}
		rules[o.Rule][string(o.Verdict)]++
	}
	viol := n[Violated] + n[Undecided]
	ev := map[string]any{
		"property_id": c.Prop,
		"tier":        c.Tier,
		"seed":        seed,
		"level":       "other",
		"wall_s":      wall.Seconds(),
		"violations":  viol,
		"assumptions": c.Assumptions,
		"coverage": map[string]any{
			"explanation":         c.Explanation,
			"not_decided":         c.NotDecided,
			"rules":               c.RuleDocs,
			"rule_verdicts":       rules,
			"obligations":         len(c.Obls),
			"discharged":          n[Discharged],
			"known_findings":      n[Known],
			"violated":            n[Violated],
			"undecided":           n[Undecided],
			"evaluations":         len(c.Obls),
			"distinct_nontrivial": len(distinct),
			"rule":                "one obligation per rule instance (call site, path query, field writer, table entry) found in the current source; non-trivial = the verdict needed a path, dataflow, fact or table-agreement query over a distinct construct (pure look-ups and anchor counts are not counted)",
			"samples":             c.Obls,
			"analysed":            c.Stats,
			"variants":            c.Variants,
			"exhaustive":          true,
			"checker_cmd":         fmt.Sprintf("./run.sh %s %s", c.Prop, c.Tier),
			"trusted_base":        []string{"go/types and go/ssa (x/tools v0.50.0)", "Go 1.26.8 toolchain (go list, export data)"},
		},
	}
	b, err := json.MarshalIndent(ev, "", " ")
	if err != nil {
		fatalBroken("evidence: %v", err)
	}
	if err := os.MkdirAll(filepath.Dir(out), 0o755); err != nil {
		fatalBroken("evidence: %v", err)
	}
	if err := os.WriteFile(out, append(b, '\n'), 0o644); err != nil {
		fatalBroken("evidence: %v", err)
	}
	return viol
}

func ruleLess(a, b string) bool {
	// C04-R10 after C04-R2
	pa, pb := strings.SplitN(a, "-R", 2), strings.SplitN(b, "-R", 2)
	if len(pa) == 2 && len(pb) == 2 && pa[0] == pb[0] {
		var x, y int
		fmt.Sscanf(pa[1], "%d", &x)
		fmt.Sscanf(pb[1], "%d", &y)
		if x != y {
			return x < y
		}
	}
	return a < b
}

func (c *Check) writeReplay(path string) {
	var bad []*Obligation
	for _, o := range c.Obls {
		if o.Verdict == Violated || o.Verdict == Undecided {
			bad = append(bad, o)
		}
	}
	rep := map[string]any{"property": c.Prop, "tier": c.Tier, "violations": bad, "rules": c.RuleDocs}
	b, _ := json.MarshalIndent(rep, "", " ")
	os.MkdirAll(filepath.Dir(path), 0o755)
	os.WriteFile(path, append(b, '\n'), 0o644)
}
