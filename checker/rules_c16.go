package main

import (
	"fmt"
	"go/token"
	"go/types"
	"sort"
	"strings"

	"golang.org/x/tools/go/ssa"
)

func init() {
	register("C16", &propDef{
		run: runC16,
		explanation: "Decides: R1 (analysis) which DA error sentinels keep their identity across the JSON-RPC transport: go-jsonrpc keys its registry by the element type of the registered pointer, so an entry can restore identity only if that type is a concrete error type distinct per sentinel; " +
			"R2 every place where an error that may come from a DA method is classified against a DA sentinel by identity (errors.Is) is wire-safe: the sentinel is in R1's set, the client restores it, or the same helper also accepts message containment; " +
			"R3 the client's size filter: blobs are appended in order, the loop leaves at the first blob that does not fit, a skipped over-size blob forces the error return before the RPC (flag-aware path query), the RPC receives exactly the filtered list and the ids returned are the server's; " +
			"R4 pass-through: every server method forwards its arguments in order to the same-named DA method and returns its results; every client wrapper calls the same-named RPC function with the configured namespace.",
		notDecided:  "Transport behaviour, JSON encoding of blobs, cancellation timing; what a particular DA implementation returns.",
		assumptions: []string{"go-jsonrpc's registry semantics (reflect.TypeOf(p).Elem())", "go/types, go/ssa"},
	})
}

const jsonrpcPkg = rootPath + "/da/jsonrpc"

func runC16(c *Check) {
	dp := c.Mod(ModDA)
	ruleDAErrorsKeepSentinelText(c, []*Prog{c.Mod(ModCore), dp}, "C16-R12")
	c.Doc("C16-R1", "TM+CT: identity-preserving sentinels (feeds R2).")
	c.Doc("C16-R2", "FS: identity classification of DA errors is wire-safe.")
	c.Doc("C16-R3", "EO-flag+VP: the client's size filter.")
	c.Doc("C16-R4", "VP: pass-through of server and client methods.")

	// ---- R1: registry
	preserved := map[string]bool{}
	var reg *ssa.Function
	for _, f := range funcsCalling(dp, jsonrpcPkg, func(n string) bool { return strings.HasSuffix(n, "go-jsonrpc.Errors).Register") }) {
		reg = f
	}
	nReg := 0
	if reg == nil {
		c.Unk("C16-R1", "registry", "", "", "anchor lost: getKnownErrorsMapping")
	} else {
		codes := map[string]int{}
		for _, b := range reg.Blocks {
			for _, in := range b.Instrs {
				call, ok := in.(*ssa.Call)
				if !ok || !strings.HasSuffix(commonName(call.Common()), "go-jsonrpc.Errors).Register") {
					continue
				}
				nReg++
				args := call.Common().Args
				arg := args[len(args)-1]
				var elem types.Type
				var name string
				if mi, ok := arg.(*ssa.MakeInterface); ok {
					if gl, ok := mi.X.(*ssa.Global); ok {
						name = gl.Name()
						elem = gl.Type().(*types.Pointer).Elem()
					}
				}
				codes[TermOf(args[len(args)-2], &Ctx{Fn: reg}).String()]++
				if elem != nil {
					if _, isIface := elem.Underlying().(*types.Interface); !isIface {
						preserved[name] = true
					}
				}
			}
		}
		dupCodes := 0
		for _, n := range codes {
			if n > 1 {
				dupCodes++
			}
		}
		c.OK("C16-R1", "registry ⟂ identity-preserving-sentinels", fnName(reg), dp.Pos(reg.Pos()),
			fmt.Sprintf("%d registrations; every one whose registered pointer points to the interface type `error` is keyed by that interface type and can never be matched; identity-preserving sentinels: %v; codes registered more than once: %d", nReg, sortedKeys(preserved), dupCodes), true)
	}
	// client restores: sentinels the client returns as variables after a message test
	restored := map[string]bool{}
	api := func(m string) *ssa.Function { return dp.Func("(*" + jsonrpcPkg + ".API)." + m) }
	for _, m := range []string{"Get", "GetIDs", "Submit", "SubmitWithOptions"} {
		fn := api(m)
		if fn == nil {
			continue
		}
		for _, b := range fn.Blocks {
			ret, ok := b.Instrs[len(b.Instrs)-1].(*ssa.Return)
			if !ok {
				continue
			}
			t := TermOf(ret.Results[len(ret.Results)-1], &Ctx{Fn: fn})
			if t.Op == "global" {
				restored[t.Name] = true
			}
		}
	}

	// ---- R2: identity classification sites (root module: types/da.go, block, and the sequencers use these helpers)
	rp := c.Mod(ModRoot)
	nSites := 0
	for _, fn := range rp.Funcs {
		pk := fnPkg(fn)
		if pk == nil || strings.HasSuffix(pk.Pkg.Path(), "/core/da") {
			continue
		}
		var isCalls []*ssa.Call
		hasContains := map[string]bool{}
		for _, b := range fn.Blocks {
			for _, in := range b.Instrs {
				call, ok := in.(*ssa.Call)
				if !ok {
					continue
				}
				switch commonName(call.Common()) {
				case "errors.Is":
					isCalls = append(isCalls, call)
				case "strings.Contains":
					t := TermOf(call, &Ctx{Fn: fn})
					// strings.Contains(e.Error(), S.Error())
					if len(t.Args) == 2 && t.Args[1].Op == "invoke" && t.Args[1].Name == "(error).Error" {
						hasContains[t.Args[1].Args[0].String()] = true
					}
				}
			}
		}
		for _, call := range isCalls {
			t := TermOf(call, &Ctx{Fn: fn})
			target := t.Args[1]
			isSentinel := target.Op == "global" && strings.HasPrefix(target.Name, "da.Err")
			isParamTarget := target.Op == "param"
			if !isSentinel && !isParamTarget {
				continue
			}
			if isParamTarget {
				// a helper comparing with a caller-supplied sentinel: fine iff it also accepts message containment of the same target
				if hasContains[target.String()] {
					continue
				}
				// only relevant if some caller passes a DA sentinel
				passesSentinel := false
				for _, caller := range callersOf(rp, fn) {
					for _, b := range caller.Blocks {
						for _, in := range b.Instrs {
							if cl, ok := in.(*ssa.Call); ok && cl.Common().StaticCallee() == fn {
								for _, a := range cl.Common().Args {
									at := TermOf(a, &Ctx{Fn: caller})
									if at.Op == "global" && strings.HasPrefix(at.Name, "da.Err") {
										passesSentinel = true
									}
								}
							}
						}
					}
				}
				if !passesSentinel {
					continue
				}
			}
			// does the classified error possibly come from a DA method?
			fromDA := rp.DeepContains(t.Args[0], func(x *Term) bool { return x.Op == "invoke" && strings.Contains(x.Name, "core/da.DA).") }, 2) || t.Args[0].Op == "param"
			if !fromDA {
				continue
			}
			nSites++
			name := strings.TrimPrefix(target.Name, "da.")
			inst := fnShort(fn) + " ⟂ errors.Is(" + name + ")"
			switch {
			case isSentinel && preserved[name]:
				c.OK("C16-R2", inst, fnName(fn), rp.InstrPos(call), "the sentinel keeps its identity across the wire (registered with a concrete error type)", true)
			case isSentinel && hasContains[target.String()]:
				c.OK("C16-R2", inst, fnName(fn), rp.InstrPos(call), "the same function also accepts message containment of this sentinel", true)
			case isSentinel && restored["da."+name] && name == "ErrBlobNotFound":
				c.OK("C16-R2", inst, fnName(fn), rp.InstrPos(call), "the client restores this sentinel's identity", true)
			default:
				c.Bad("C16-R2", inst, fnName(fn), rp.InstrPos(call), "an error that may have crossed the JSON-RPC transport is classified against "+target.Name+" by identity only; that identity does not survive the wire (the registry is keyed by the interface type `error`), so the proxied DA yields a different status than the same DA called directly (e.g. StatusError instead of NotIncludedInBlock / AlreadyInMempool / TooBig)", nil)
			}
		}
	}
	// wire-safe helper present? count sites through helper calls too
	for _, fn := range rp.Funcs {
		for _, b := range fn.Blocks {
			for _, in := range b.Instrs {
				cl, ok := in.(*ssa.Call)
				if !ok || cl.Common().StaticCallee() == nil || !rp.InRepo(cl.Common().StaticCallee()) {
					continue
				}
				for _, a := range cl.Common().Args {
					at := TermOf(a, &Ctx{Fn: fn})
					// the sentinel comes from a table of (sentinel, status) rows walked by a loop
					if al, f := tableField(a, 0); al != nil && at.Op != "global" {
						callee := cl.Common().StaticCallee()
						for key, vs := range litStores(al) {
							if !strings.HasSuffix(key, "]."+f) {
								continue
							}
							for _, v := range vs {
								vt := TermOf(v, &Ctx{Fn: fn})
								if vt.Op != "global" || !strings.HasPrefix(vt.Name, "da.Err") {
									continue
								}
								nSites++
								inst := fnShort(fn) + " ⟂ " + fnShort(callee) + "(" + strings.TrimPrefix(vt.Name, "da.") + ")"
								if helperIsWireSafe(rp, callee) {
									c.OK("C16-R2", inst, fnName(fn), rp.InstrPos(in), "classification (row of a table) through a helper that accepts identity or message containment", true)
								} else if calleeUsesIdentity(rp, callee) {
									c.Bad("C16-R2", inst, fnName(fn), rp.InstrPos(in), "classification through a helper that compares by identity only", nil)
								} else {
									nSites--
								}
							}
						}
						continue
					}
					// the sentinel comes from a package-level table of (sentinel, status) rows: the
					// argument renders as the alternatives the rows hold
					if at.Op == "phi" {
						callee := cl.Common().StaticCallee()
						for _, leaf := range flattenPhi(at) {
							if leaf.Op != "global" || !strings.HasPrefix(leaf.Name, "da.Err") {
								continue
							}
							nSites++
							inst := fnShort(fn) + " ⟂ " + fnShort(callee) + "(" + strings.TrimPrefix(leaf.Name, "da.") + ")"
							if helperIsWireSafe(rp, callee) {
								c.OK("C16-R2", inst, fnName(fn), rp.InstrPos(in), "classification (row of a package-level table) through a helper that accepts identity or message containment", true)
							} else if calleeUsesIdentity(rp, callee) {
								c.Bad("C16-R2", inst, fnName(fn), rp.InstrPos(in), "classification through a helper that compares by identity only", nil)
							} else {
								nSites--
							}
						}
						continue
					}
					if at.Op == "global" && strings.HasPrefix(at.Name, "da.Err") {
						callee := cl.Common().StaticCallee()
						// the helper must be wire-safe: errors.Is(e, target) || strings.Contains(e.Error(), target.Error())
						safe := helperIsWireSafe(rp, callee)
						nSites++
						inst := fnShort(fn) + " ⟂ " + fnShort(callee) + "(" + strings.TrimPrefix(at.Name, "da.") + ")"
						if safe {
							c.OK("C16-R2", inst, fnName(fn), rp.InstrPos(in), "classification through a helper that accepts identity or message containment", true)
						} else if calleeUsesIdentity(rp, callee) {
							c.Bad("C16-R2", inst, fnName(fn), rp.InstrPos(in), "classification through a helper that compares by identity only", nil)
						} else {
							nSites--
						}
					}
				}
			}
		}
	}
	if nSites < 5 {
		c.Unk("C16-R2", "classification-sites", "", "", fmt.Sprintf("anchor lost: %d identity classification sites of DA sentinels found (5 confirmed by hand)", nSites))
	}

	// ---- R3
	swo := api("SubmitWithOptions")
	if swo == nil {
		c.Unk("C16-R3", "client.SubmitWithOptions", "", "", "anchor lost")
	} else {
		g := BuildECFG(dp, swo, ExpandOpts{MaxDepth: 1})
		c.NoteGraph(g)
		fn := fnName(swo)
		rpc := g.Select(func(n *Node) bool {
			cc := CallCommonOf(n)
			if cc == nil || cc.IsInvoke() || cc.StaticCallee() != nil {
				return false
			}
			t := TermOf(cc.Value, n.Ctx)
			return t.Op == "field" && t.Name == "SubmitWithOptions"
		})
		apps := g.Select(func(n *Node) bool { return CallName(n) == "append" })
		if len(rpc) != 1 || len(apps) != 1 {
			c.Unk("C16-R3", "SubmitWithOptions ⟂ anchors", fn, "", fmt.Sprintf("anchor lost: %d RPC calls, %d appends", len(rpc), len(apps)))
		} else {
			// list passed = appended list
			lst := ArgTerm(rpc[0], 1)
			isApp := func(t *Term) bool { return t.IsCall("append") || (t.Op == "call" && t.Name == "append") }
			if (strings.Contains(lst.String(), "append(") && strings.Contains(lst.String(), "make(")) ||
				(dp.DeepContains(lst, isApp, 2) && dp.DeepContains(lst, func(t *Term) bool { return t.Op == "make" }, 2)) {
				c.OK("C16-R3", "SubmitWithOptions ⟂ rpc-gets-filtered-list", fn, dp.InstrPos(rpc[0].In), "the RPC receives the list built by the filter loop", true)
			} else {
				c.Bad("C16-R3", "SubmitWithOptions ⟂ rpc-gets-filtered-list", fn, dp.InstrPos(rpc[0].In), "the RPC is not given the filtered list: "+trunc(lst.String(), 120), nil)
			}
			// in-order append of the ranged element
			el := ArgTerm(apps[0], 1)
			blobs := swo.Params[2].Name()
			if dp.DeepContains(el, func(t *Term) bool {
				return t.Op == "index" && t.Args[0].String() == blobs && strings.Contains(t.Args[1].String(), "+ 1")
			}, 2) {
				c.OK("C16-R3", "SubmitWithOptions ⟂ in-order-append", fn, dp.InstrPos(apps[0].In), "blobs are appended while ranging over the input in order", true)
			} else {
				c.Bad("C16-R3", "SubmitWithOptions ⟂ in-order-append", fn, dp.InstrPos(apps[0].In), "the appended blob is not the ranged input element", nil)
			}
			// append only if it fits: size test false edge necessary; after the true edge no more appends (leaves the loop)
			isLimit := func(t *Term) bool { return strings.HasSuffix(t.unconv().String(), ".MaxBlobSize") }
			// the running size plus this blob is above the limit: limit < cur+len, or limit-cur < len
			misfit := func(t *Term, pol bool) bool {
				a, op, b, ok := canonCmp(t, pol)
				if !ok || op != "<" {
					return false
				}
				a, b = a.unconv(), b.unconv()
				return (isLimit(a) && b.Op == "bin" && b.Name == "+") || (a.Op == "bin" && a.Name == "-" && isLimit(a.Args[0]) && !isLimit(b))
			}
			// … and its complement: cur+len <= limit, or len <= limit-cur
			fitsFact := func(t *Term, pol bool) bool {
				a, op, b, ok := canonCmp(t, pol)
				if !ok || op != "<=" {
					return false
				}
				a, b = a.unconv(), b.unconv()
				return (isLimit(b) && a.Op == "bin" && a.Name == "+") || (b.Op == "bin" && b.Name == "-" && isLimit(b.Args[0]) && !isLimit(a))
			}
			full := g.Select(EdgeWhere(func(t *Term, pol bool, n *Node) bool { return misfit(t, pol) }))
			if len(full) == 0 {
				c.Bad("C16-R3", "SubmitWithOptions ⟂ stop-at-first-misfit", fn, "", "no cumulative size test currentSize+len(blob) > MaxBlobSize", nil)
			} else {
				c.Decide("C16-R3", "SubmitWithOptions ⟂ stop-at-first-misfit", fn, dp.InstrPos(full[0].In), "after the first blob that does not fit nothing more is appended (longest prefix)",
					"after a blob that does not fit a later one can still be appended: the submitted list is not a prefix and the count reported does not identify what was sent", g, g.PathAvoiding(full, nodeSet(apps), nil))
				// what the running size counts: it starts at zero and grows by the length of a blob —
				// nothing else (options, a header, a per-request overhead) is charged against the
				// DA layer's blob size limit, which the DA layer itself applies to the blobs only
				{
					var cur *Term
					EdgeWhere(func(t *Term, pol bool, n *Node) bool {
						if cur != nil || !misfit(t, pol) {
							return false
						}
						a, _, b, _ := canonCmp(t, pol)
						a, b = a.unconv(), b.unconv()
						sum := b
						if !(isLimit(a) && b.Op == "bin" && b.Name == "+") {
							if a.Op == "bin" && a.Name == "-" {
								cur = a.Args[1].unconv()
							}
							return false
						}
						for _, x := range sum.Args {
							if !strings.HasPrefix(x.unconv().String(), "len(") {
								cur = x.unconv()
							}
						}
						return false
					})(full[0])
					okStart, why := cur != nil, "the running size was not identified"
					if cur != nil {
						for _, l := range flattenPhi(cur) {
							lu := l.unconv()
							switch {
							case lu.Op == "const" && lu.Name == "0":
							case lu.Op == "bin" && lu.Name == "+" && len(lu.Args) == 2 && (strings.HasPrefix(lu.Args[0].unconv().String(), "len(") || strings.HasPrefix(lu.Args[1].unconv().String(), "len(")):
							case lu.Op == "load" || lu.Op == "alloc" || (lu.Op == "field" && func() bool { r := rootOf(lu); return r != nil && r.Op == "alloc" }()):
								// a cell (a captured variable, a field of a local result bundle): its updates are the +len stores
							default:
								okStart, why = false, "the running size can start from or grow by "+trunc(lu.String(), 60)
							}
						}
					}
					if okStart {
						c.OK("C16-R3", "SubmitWithOptions ⟂ running size counts the blobs only", fn, dp.InstrPos(full[0].In), "the running size starts at 0 and grows by the length of each appended blob", true)
					} else {
						c.Bad("C16-R3", "SubmitWithOptions ⟂ running size counts the blobs only", fn, dp.InstrPos(full[0].In), why+": the client cuts the list earlier than the DA layer itself would (the limit is on the blobs), and a single blob that the DA layer accepts can be refused as too big — the same call gives other ids through the proxy than in-process", nil)
					}
				}
				facts := g.NecessaryEdges(nodeSet(apps))
				fits := false
				for _, f := range facts {
					if fitsFact(f.Cond, f.Pol) {
						fits = true
					}
				}
				if fits {
					c.OK("C16-R3", "SubmitWithOptions ⟂ append-only-if-fits", fn, dp.InstrPos(apps[0].In), "a blob is appended only if the running size stays within MaxBlobSize", true)
				} else {
					c.Bad("C16-R3", "SubmitWithOptions ⟂ append-only-if-fits", fn, dp.InstrPos(apps[0].In), "a blob can be appended without the cumulative size test", nil)
				}
			}
			// a skipped oversize blob forces the error return before the RPC (flag-aware)
			skipEdges := g.Select(EdgeWhere(func(t *Term, pol bool, n *Node) bool {
				a, op, b, ok := canonCmp(t, pol) // limit < len(blob)
				return ok && op == "<" && strings.HasPrefix(b.unconv().String(), "len(") && isLimit(a)
			}))
			if len(skipEdges) == 0 {
				c.OK("C16-R3", "SubmitWithOptions ⟂ no-blob-is-skipped", fn, dp.Pos(swo.Pos()), "no individual blob is skipped", true)
			} else {
				// the counter incremented on the skip path
				var counter *ssa.BinOp
				var counterCell *ssa.Alloc       // the counter lives in a variable captured by a closure
				var counterFieldAlloc *ssa.Alloc // … or in a field of a local result bundle
				counterField := -1
				for n := range g.Reachable(skipEdges, nodeSet(apps)) {
					if b, ok := n.In.(*ssa.BinOp); ok && b.Op == token.ADD {
						if k, ok := b.Y.(*ssa.Const); ok && k.Int64() == 1 {
							_, isPhi := b.X.(*ssa.Phi)
							cell := cellOfLoad(b.X, n.Ctx)
							fal, ffield, isFieldCell := fieldCellOfLoad(b.X)
							if (isPhi || cell != nil || isFieldCell) && counter == nil {
								// the first +1 after the skip edge in the same block
								if n.In.Block() == skipEdges[0].In.(*ssa.If).Block().Succs[0] {
									counter = b
									counterCell = cell
									if isFieldCell {
										counterFieldAlloc, counterField = fal, ffield
									}
								}
							}
						}
					}
				}
				if counter == nil {
					c.Bad("C16-R3", "SubmitWithOptions ⟂ skipped-blob-forces-error", fn, dp.InstrPos(skipEdges[0].In), "an over-size blob is skipped without being recorded: the caller is told blobs were submitted that were not", nil)
				} else {
					cphi, _ := counter.X.(*ssa.Phi)
					notSet := g.Select(EdgeWhere(func(t *Term, pol bool, n *Node) bool {
						ifi := n.In.(*ssa.If)
						b, ok := ifi.Cond.(*ssa.BinOp)
						if !ok {
							return false
						}
						// (counter > 0) false edge / (counter == 0) true edge
						isCounter := func(v ssa.Value) bool {
							if counterCell != nil {
								return cellOfLoad(v, n.Ctx) == counterCell
							}
							if counterFieldAlloc != nil {
								// the field itself, in the function that counts …
								if al, fi, ok := fieldCellOfLoad(v); ok && al == counterFieldAlloc && fi == counterField {
									return true
								}
								// … or the same field of the bundle the counting function returned
								var bundle ssa.Value
								fidx := -1
								if fv, ok := v.(*ssa.Field); ok {
									bundle, fidx = fv.X, fv.Field
								} else if al, fi, ok := fieldCellOfLoad(v); ok {
									// the bundle kept in a local variable: its one store is the call's result
									var stores []ssa.Value
									for _, r := range *al.Referrers() {
										if st, ok := r.(*ssa.Store); ok && st.Addr == ssa.Value(al) {
											stores = append(stores, st.Val)
										}
									}
									if len(stores) == 1 {
										bundle, fidx = stores[0], fi
									}
								}
								if bundle != nil && fidx == counterField {
									var call *ssa.Call
									switch x := bundle.(type) {
									case *ssa.Call:
										call = x
									case *ssa.Extract:
										call, _ = x.Tuple.(*ssa.Call)
									}
									if call != nil {
										if cal := call.Common().StaticCallee(); cal != nil && cal == counter.Parent() {
											for _, bb := range cal.Blocks {
												if ret, ok := bb.Instrs[len(bb.Instrs)-1].(*ssa.Return); ok && len(ret.Results) > 0 {
													if ld, ok := spilledResult(ret, 0).(*ssa.UnOp); ok && ld.Op == token.MUL && ld.X == ssa.Value(counterFieldAlloc) {
														return true
													}
												}
											}
										}
									}
								}
								return false
							}
							if v == ssa.Value(cphi) || v == ssa.Value(counter) {
								return true
							}
							// the count handed back by the helper that filters the blobs
							if ex, ok := v.(*ssa.Extract); ok {
								if call, ok := ex.Tuple.(*ssa.Call); ok {
									if cal := call.Common().StaticCallee(); cal != nil && counter.Parent() == cal {
										for _, bb := range cal.Blocks {
											if ret, ok := bb.Instrs[len(bb.Instrs)-1].(*ssa.Return); ok && ex.Index < len(ret.Results) {
												rv := spilledResult(ret, ex.Index)
												if rv == ssa.Value(cphi) || rv == ssa.Value(counter) {
													return true
												}
												if ph, ok := rv.(*ssa.Phi); ok {
													for _, e := range ph.Edges {
														if e == ssa.Value(counter) || e == ssa.Value(cphi) {
															return true
														}
													}
												}
											}
										}
									}
								}
							}
							if ph, ok := v.(*ssa.Phi); ok {
								for _, e := range ph.Edges {
									if e == ssa.Value(counter) || e == ssa.Value(cphi) {
										return true
									}
								}
							}
							// the count handed back in a field of a result bundle
							if _, isField := v.(*ssa.Field); isField || func() bool { u, ok := v.(*ssa.UnOp); return ok && u.Op == token.MUL }() {
								for _, leaf := range flattenPhi(TermOf(v, n.Ctx)) {
									if lv := leaf.unconv().V; lv != nil && (lv == ssa.Value(counter) || (cphi != nil && lv == ssa.Value(cphi))) {
										return true
									}
								}
							}
							return false
						}
						k, isK := b.Y.(*ssa.Const)
						if !isCounter(b.X) || !isK || k.Int64() != 0 {
							return false
						}
						return (b.Op == token.GTR && !pol) || (b.Op == token.EQL && pol) || (b.Op == token.NEQ && !pol)
					}))
					incNodes := g.Select(func(n *Node) bool { return n.In == ssa.Instruction(counter) })
					path := g.PathAvoiding(incNodes, nodeSet(rpc), nodeSet(notSet))
					c.Decide("C16-R3", "SubmitWithOptions ⟂ skipped-blob-forces-error", fn, dp.InstrPos(counter), "once an over-size blob was skipped the RPC is unreachable (the counter test is the only way on)",
						"after skipping an over-size blob the RPC can still be made: the caller gets ids for fewer blobs than it believes were taken, in the wrong positions", g, path)
				}
			}
			// every input blob is accounted for: from the start of an iteration the next iteration
			// is reached only through the append or through the recorded skip (the counter that
			// forces the error return); a blob passed over silently makes the returned ids fewer
			// than the caller's prefix, so an unsent blob is marked submitted
			{
				// the loop around the append; if the loop body sits in a closure called on the spot,
				// the loop is the one around that call
				ab, actx := apps[0].In.Block(), apps[0].Ctx
				hb := loopHeaderOf(ab)
				for hb == nil && actx != nil && actx.Site != nil && actx.Parent != nil {
					ab, actx = actx.Site.Block(), actx.Parent
					hb = loopHeaderOf(ab)
				}
				var head *Node
				var bodyEntry []*Node
				if hb != nil {
					head = g.headNode(actx, hb)
					if ifi, ok := hb.Instrs[len(hb.Instrs)-1].(*ssa.If); ok {
						bodyEntry = g.Select(func(n *Node) bool { return n.Kind == NTrue && n.In == ssa.Instruction(ifi) && n.Ctx == actx })
					}
				}
				isCount := func(n *Node) bool {
					b, ok := n.In.(*ssa.BinOp)
					if !ok || b.Op != token.ADD {
						return false
					}
					k, isK := b.Y.(*ssa.Const)
					if !isK || k.Int64() != 1 {
						return false
					}
					// the skip counter: a +1 on the path behind an individual-size test
					for _, se := range skipEdges {
						if g.PathAvoiding([]*Node{se}, func(x *Node) bool { return x == n }, nodeSet(apps)) != nil {
							return true
						}
					}
					return false
				}
				if head == nil || len(bodyEntry) == 0 {
					c.Unk("C16-R3", "SubmitWithOptions ⟂ every-blob-accounted-for", fn, "", "anchor lost: the filter is not a loop over the input blobs")
				} else {
					c.Decide("C16-R3", "SubmitWithOptions ⟂ every-blob-accounted-for", fn, dp.InstrPos(apps[0].In), "the next blob is looked at only after this one was appended or its skip was recorded",
						"a blob can be passed over without being appended and without the skip being recorded: fewer ids come back than the prefix the caller believes was taken, so an unsent blob is marked as submitted and a sent one is submitted again", g,
						g.PathAvoiding(bodyEntry, func(n *Node) bool { return n == head }, orPred(nodeSet(apps), isCount)))
				}
			}
			// ids returned are the server's
			okRet := false
			for _, x := range g.Exits {
				t := TermOf(spilledResult(x.In.(*ssa.Return), 0), g.RootCtx)
				if t.Op == "extract" && t.Name == "0" && t.Args[0].Op == "dyncall" && strings.Contains(t.Args[0].String(), ".SubmitWithOptions") {
					okRet = true
				}
			}
			if okRet {
				c.OK("C16-R3", "SubmitWithOptions ⟂ returns-server-ids", fn, dp.InstrPos(rpc[0].In), "the ids returned are those the server returned", true)
			} else {
				c.Bad("C16-R3", "SubmitWithOptions ⟂ returns-server-ids", fn, dp.InstrPos(rpc[0].In), "the ids returned are not the RPC result", nil)
			}
		}
	}
	c.MinInstances("C16-R3", 7)

	// ---- R4 pass-through
	methods := []string{"Get", "GetIDs", "GetProofs", "Commit", "Validate", "Submit", "SubmitWithOptions", "GasPrice", "GasMultiplier"}
	for _, m := range methods {
		var sfn *ssa.Function
		for _, f := range dp.Funcs {
			pk := fnPkg(f)
			if pk == nil || pk.Pkg.Path() != jsonrpcPkg || f.Parent() != nil || f.Name() != m || f.Signature.Recv() == nil {
				continue
			}
			if strings.HasSuffix(f.Signature.Recv().Type().String(), ".API") {
				continue // the client
			}
			// the server side: it invokes the DA interface
			for _, b := range f.Blocks {
				for _, in := range b.Instrs {
					if call, ok := in.(*ssa.Call); ok && call.Common().IsInvoke() && strings.Contains(call.Common().Method.FullName(), "core/da.DA).") {
						sfn = f
					}
				}
			}
		}
		if sfn == nil {
			c.Unk("C16-R4", "server."+m, "", "", "anchor lost: server method")
			continue
		}
		ok, why := false, "no call of DA."+m
		for _, b := range sfn.Blocks {
			for _, in := range b.Instrs {
				call, isC := in.(*ssa.Call)
				if !isC || !call.Common().IsInvoke() || call.Common().Method.Name() != m {
					continue
				}
				// args in order = params (after receiver)
				ok = true
				for i, a := range call.Common().Args {
					if i+1 >= len(sfn.Params) || a != ssa.Value(sfn.Params[i+1]) {
						ok = false
						why = fmt.Sprintf("argument %d is not parameter %d", i, i+1)
					}
				}
				if len(call.Common().Args) != len(sfn.Params)-1 {
					ok = false
					why = "argument count differs"
				}
				// results returned unchanged
				for _, bb := range sfn.Blocks {
					if ret, isR := bb.Instrs[len(bb.Instrs)-1].(*ssa.Return); isR {
						for ri, r := range ret.Results {
							ex, isE := r.(*ssa.Extract)
							if !(isE && ex.Tuple == ssa.Value(call) && ex.Index == ri) && !(r == ssa.Value(call)) {
								ok = false
								why = "a result is not returned unchanged"
							}
						}
					}
				}
			}
		}
		if ok {
			c.OK("C16-R4", "server."+m+" ⟂ pass-through", fnName(sfn), dp.Pos(sfn.Pos()), "forwards its arguments in order to DA."+m+" and returns its results", true)
		} else {
			c.Bad("C16-R4", "server."+m+" ⟂ pass-through", fnName(sfn), dp.Pos(sfn.Pos()), "the server method is not a pass-through: "+why, nil)
		}
		cfn := api(m)
		if cfn == nil {
			c.Unk("C16-R4", "client."+m, "", "", "anchor lost: client method")
			continue
		}
		okC, whyC := false, "no call of Internal."+m
		for _, b := range cfn.Blocks {
			for _, in := range b.Instrs {
				call, isC := in.(*ssa.Call)
				if !isC || call.Common().IsInvoke() || call.Common().StaticCallee() != nil {
					continue
				}
				t := TermOf(call, &Ctx{Fn: cfn})
				if t.Op != "dyncall" || t.Args[0].Op != "field" || t.Args[0].Name != m {
					if t.Op == "dyncall" && t.Args[0].Op == "field" {
						whyC = "calls Internal." + t.Args[0].Name + " instead of Internal." + m
					}
					continue
				}
				okC = true
				// namespace argument, if the method has one, is api.Namespace
				sig := cfn.Signature
				for i := 0; i < sig.Params().Len(); i++ {
					isNS := false
					if pt := sig.Params().At(i); pt.Type().String() == "[]byte" && (m != "SubmitWithOptions" || i == 3) && (pt.Name() == "_" || pt.Name() == "ns" || pt.Name() == "namespace") {
						isNS = true
						a := t.Args[1+i]
						if !(a.Op == "field" && a.Name == "Namespace") {
							okC = false
							whyC = "the namespace passed is not the configured one: " + trunc(a.String(), 60)
						}
					}
					// every other argument is the caller's own, unmodified (the blob list of
					// SubmitWithOptions is the filtered prefix, C16-R3): ids de-duplicated, sorted or
					// otherwise rewritten on the way make the answer differ from the same DA's in-process
					if !isNS && !(m == "SubmitWithOptions" && i == 1) && 1+i < len(t.Args) && 1+i < len(cfn.Params) {
						a := t.Args[1+i].unconv()
						if !(a.Op == "param" && a.V == ssa.Value(cfn.Params[1+i])) {
							okC = false
							whyC = "argument " + sig.Params().At(i).Name() + " of the RPC is not the caller's own value but " + trunc(a.String(), 80) + ": the proxied call no longer asks the DA layer what the direct call asks (e.g. one blob per id, in the order of the ids)"
						}
					}
				}
			}
		}
		if okC {
			c.OK("C16-R4", "client."+m+" ⟂ same-named-rpc+namespace", fnName(cfn), dp.Pos(cfn.Pos()), "calls Internal."+m+" with the configured namespace", true)
		} else {
			c.Bad("C16-R4", "client."+m+" ⟂ same-named-rpc+namespace", fnName(cfn), dp.Pos(cfn.Pos()), whyC, nil)
		}
	}
	c.MinInstances("C16-R4", 18)

	// ---- R5: cancellation keeps its class across the wire. context.Canceled is a standard
	// library value whose identity cannot survive the transport; wherever the node classifies a
	// DA error against it, the client method that produced the error must hand back that very
	// value whenever the error that crossed the wire says so.
	c.Doc("C16-R5", "FS+VP: the client restores context.Canceled from the wire error for every DA method whose error the node classifies as cancellation.")
	cancelMethods := map[string]string{}
	for _, fn := range rp.Funcs {
		pk := fnPkg(fn)
		if pk == nil || strings.HasSuffix(pk.Pkg.Path(), "/core/da") {
			continue
		}
		for _, b := range fn.Blocks {
			for _, in := range b.Instrs {
				call, ok := in.(*ssa.Call)
				if !ok || commonName(call.Common()) != "errors.Is" {
					continue
				}
				t := TermOf(call, &Ctx{Fn: fn})
				if len(t.Args) != 2 || t.Args[1].Op != "global" || t.Args[1].Name != "context.Canceled" {
					continue
				}
				rp.DeepContains(t.Args[0], func(x *Term) bool {
					if x.Op == "invoke" && strings.Contains(x.Name, "core/da.DA).") {
						cancelMethods[x.Name[strings.LastIndex(x.Name, ".")+1:]] = fnShort(fn) + " @" + rp.InstrPos(call)
					}
					return false
				}, 2)
			}
		}
	}
	for _, m := range sortedKeys(cancelMethods) {
		fn := api(m)
		inst := "client." + m + " ⟂ restores-context.Canceled-from-wire-error"
		if fn == nil {
			c.Unk("C16-R5", inst, "", "", "anchor lost: client method "+m)
			continue
		}
		g := BuildECFG(dp, fn, ExpandOpts{MaxDepth: 1})
		c.NoteGraph(g)
		rpc := g.Select(func(n *Node) bool {
			cc := CallCommonOf(n)
			if cc == nil || cc.IsInvoke() || cc.StaticCallee() != nil {
				return false
			}
			t := TermOf(cc.Value, n.Ctx)
			return t.Op == "field" && t.Name == m
		})
		if len(rpc) != 1 {
			c.Unk("C16-R5", inst, fnName(fn), "", fmt.Sprintf("anchor lost: %d RPC calls", len(rpc)))
			continue
		}
		wireErr := TermOf(rpc[0].In.(ssa.Value), rpc[0].Ctx)
		restoring := g.Select(func(n *Node) bool {
			ret, ok := n.In.(*ssa.Return)
			if !ok || len(ret.Results) == 0 {
				return false
			}
			t := TermOf(ret.Results[len(ret.Results)-1], n.Ctx)
			return t.Op == "global" && t.Name == "context.Canceled"
		})
		if len(restoring) == 0 {
			c.Bad("C16-R5", inst, fnName(fn), dp.Pos(fn.Pos()), "the node classifies the error of DA."+m+" against context.Canceled ("+cancelMethods[m]+") but the client never returns that value: a cancellation reported by the DA side becomes a generic error after crossing the wire", nil)
			continue
		}
		// the condition of the restoring return: message containment on the error of the RPC
		byWire := false
		var conds []string
		for _, rn := range restoring {
			rn := rn
			for _, f := range dp.closeFacts(FactSet(g.NecessaryEdges(func(n *Node) bool { return n == rn })), 1) {
				t, pol := normFact(f.Cond, f.Pol)
				if !pol || !t.IsCall("strings.Contains") || len(t.Args) != 2 {
					continue
				}
				conds = append(conds, trunc(t.String(), 100))
				subj, pat := t.Args[0], t.Args[1]
				if subj.Op == "invoke" && subj.Name == "(error).Error" && subj.Args[0].Op == "extract" && subj.Args[0].Args[0].V == wireErr.V {
					if (pat.Op == "invoke" && pat.Name == "(error).Error" && pat.Args[0].Op == "global" && pat.Args[0].Name == "context.Canceled") || (pat.Op == "const" && pat.Name == "\"context canceled\"") {
						byWire = true
					}
				}
			}
		}
		if byWire {
			c.OK("C16-R5", inst, fnName(fn), dp.InstrPos(restoring[0].In), "context.Canceled is returned whenever the error of the RPC carries its message", true)
		} else {
			c.Bad("C16-R5", inst, fnName(fn), dp.InstrPos(restoring[0].In), "context.Canceled is returned without testing the message of the error that crossed the wire (conditions: "+strings.Join(conds, "; ")+"): a cancellation reported by the DA side is classified as a generic error through the proxy and as StatusContextCanceled directly", nil)
		}
	}
	c.MinInstances("C16-R5", 1)

	// ---- R7: a failed RPC is reported as that failure. On the error edge of the transport call,
	// every return of a client method hands back the transport error itself (possibly wrapped) or
	// the restored context.Canceled — never another sentinel ("not found") and never nil: "the call
	// failed" must not turn into "nothing at this height", which scans move past.
	c.Doc("C16-R7", "ER: in every client method, every return reachable from the error edge of the RPC returns that error (or the restored context.Canceled), never a different sentinel and never nil.")
	{
		n7 := 0
		for _, m := range []string{"Get", "GetIDs", "GetProofs", "Commit", "Validate", "Submit", "SubmitWithOptions"} {
			fn := api(m)
			if fn == nil {
				continue
			}
			g := BuildECFG(dp, fn, ExpandOpts{MaxDepth: 1})
			c.NoteGraph(g)
			mm := m
			isRPC := func(t *Term) bool {
				if t.Op != "dyncall" && t.Op != "call" {
					return false
				}
				return strings.Contains(t.String(), ".Internal."+mm+",") || strings.Contains(t.String(), ".Internal."+mm+")") || strings.Contains(t.Name, "Internal."+mm)
			}
			var failed []*Node
			for _, e := range g.Select(ErrNotNilEdge(isRPC)) {
				// only the test of the error result (not of the value result)
				t, _ := CondTerm(e)
				isErr := false
				t.Walk(func(x *Term) bool {
					if x.Op == "extract" && x.V != nil && x.V.Type().String() == "error" {
						isErr = true
					}
					if (x.Op == "dyncall" || x.Op == "call") && x.V != nil && x.V.Type().String() == "error" {
						isErr = true
					}
					return true
				})
				if isErr {
					failed = append(failed, e)
				}
			}
			if len(failed) == 0 {
				continue
			}
			n7++
			reach := g.Reachable(failed, nil)
			var bad []string
			for _, x := range g.Exits {
				if !reach[x] || x.Ctx.Depth != 0 {
					continue
				}
				ret := x.In.(*ssa.Return)
				et := TermOf(spilledResult(ret, len(ret.Results)-1), x.Ctx)
				for _, leaf := range flattenPhi(et) {
					s := leaf.String()
					ok := false
					switch {
					case leaf.Op == "global" && leaf.Name == "context.Canceled":
						ok = true
					case leaf.Contains(func(x *Term) bool {
						// the transport error itself, or a wrap of it (the error value is an operand)
						if x.V == nil || x.V.Type().String() != "error" {
							return false
						}
						if ex, isEx := x.V.(*ssa.Extract); isEx {
							if call, isCall := ex.Tuple.(*ssa.Call); isCall {
								return isRPC(TermOf(call, x.Ctx)) && TermOf(call, x.Ctx).Op == "dyncall"
							}
							return false
						}
						return x.Op == "dyncall" && isRPC(x)
					}):
						ok = true
					}
					if !ok {
						// is this return really reachable with the error set? (the success path shares returns)
						xx := x
						if g.PathAvoiding(failed, func(y *Node) bool { return y == xx }, nil) != nil {
							bad = append(bad, trunc(s, 50)+" @"+dp.InstrPos(x.In))
						}
					}
				}
			}
			inst := "client." + m + " ⟂ rpc-failure-is-reported-as-that-failure"
			if len(bad) == 0 {
				c.OK("C16-R7", inst, fnName(fn), dp.Pos(fn.Pos()), "every return after a failed RPC hands back the transport error or the restored context.Canceled", true)
			} else {
				sort.Strings(bad)
				c.Bad("C16-R7", inst, fnName(fn), dp.Pos(fn.Pos()), "after the RPC failed the method can return "+strings.Join(bad, "; ")+": a transport failure is then classified as something else (e.g. 'nothing at this height', which a scan moves past) instead of being retried", nil)
			}
		}
		if n7 < 4 {
			c.Unk("C16-R7", "client-methods", "", "", fmt.Sprintf("anchor lost: only %d client methods with a checked RPC error", n7))
		}
		c.MinInstances("C16-R7", 4)
	}

	// ---- R8: a successful answer is passed on. After the RPC returned without error the client
	// method adds no refusal of its own (other than turning an empty listing into the interface's
	// "nothing at this height"): content the DA layer holds — an empty blob, an odd count — is the
	// DA layer's business; a client-side check makes the proxied DA fail where the direct one
	// answers, and a scan retries that height forever.
	c.Doc("C16-R8", "ER: in every client method, every return reachable from the success edge of the RPC reports success, or the interface's not-found sentinel for an empty listing.")
	{
		n8 := 0
		for _, m := range []string{"Get", "GetIDs", "GetProofs", "Commit", "Validate", "Submit", "SubmitWithOptions"} {
			fn := api(m)
			if fn == nil {
				continue
			}
			g := BuildECFG(dp, fn, ExpandOpts{MaxDepth: 1})
			mm := m
			isRPC := func(t *Term) bool {
				if t.Op != "dyncall" && t.Op != "call" {
					return false
				}
				return strings.Contains(t.String(), ".Internal."+mm+",") || strings.Contains(t.String(), ".Internal."+mm+")") || strings.Contains(t.Name, "Internal."+mm)
			}
			var okEdges []*Node
			for _, e := range g.Select(ErrNilEdge(isRPC)) {
				t, _ := CondTerm(e)
				isErr := false
				t.Walk(func(x *Term) bool {
					if (x.Op == "extract" || x.Op == "dyncall" || x.Op == "call") && x.V != nil && x.V.Type().String() == "error" {
						isErr = true
					}
					return true
				})
				if isErr {
					okEdges = append(okEdges, e)
				}
			}
			if len(okEdges) == 0 {
				continue
			}
			c.NoteGraph(g)
			n8++
			// the RPC call instructions themselves (not calls that merely mention their results)
			rpcCalls := map[ssa.Value]bool{}
			for _, e := range okEdges {
				t, _ := CondTerm(e)
				t.Walk(func(x *Term) bool {
					if x.Op == "dyncall" && x.V != nil && isRPC(x) {
						rpcCalls[x.V] = true
					}
					return true
				})
			}
			rpcErrVal := func(l *Term) bool {
				if l.V == nil || l.V.Type().String() != "error" {
					return false
				}
				if ex, ok := l.V.(*ssa.Extract); ok {
					return rpcCalls[ex.Tuple]
				}
				return rpcCalls[l.V]
			}
			var bad []string
			for _, x := range g.Exits {
				if x.Ctx.Depth != 0 {
					continue
				}
				xx := x
				if g.PathAvoiding(okEdges, func(y *Node) bool { return y == xx }, nil) == nil {
					continue
				}
				ret := x.In.(*ssa.Return)
				et := TermOf(spilledResult(ret, len(ret.Results)-1), x.Ctx)
				for _, leaf := range flattenPhi(et) {
					l := leaf.unconv()
					switch {
					case l.Op == "const" && l.Name == "nil":
					case l.Op == "global" && l.Name == "da.ErrBlobNotFound":
					case rpcErrVal(l):
						// the RPC's own error value (nil on this edge)
					default:
						bad = append(bad, trunc(l.String(), 60)+" @"+dp.InstrPos(x.In))
					}
				}
			}
			inst := "client." + m + " ⟂ successful-answer-is-passed-on"
			if len(bad) == 0 {
				c.OK("C16-R8", inst, fnName(fn), dp.Pos(fn.Pos()), "after a successful RPC the method reports success (or not-found for an empty listing)", true)
			} else {
				sort.Strings(bad)
				c.Bad("C16-R8", inst, fnName(fn), dp.Pos(fn.Pos()), "after the RPC succeeded the client can still fail with "+strings.Join(bad, "; ")+": content that the same DA serves in-process (e.g. an empty blob) makes the proxied call fail, and a scan that retries the height is stuck on it", nil)
			}
		}
		if n8 < 4 {
			c.Unk("C16-R8", "client-methods", "", "", fmt.Sprintf("anchor lost: only %d client methods with a checked RPC result", n8))
		}
		c.MinInstances("C16-R8", 4)
	}

	// ---- R6: transport limits admit everything the client may send. Blobs travel base64-encoded
	// inside JSON (4/3 of their raw size plus the envelope); a request-size cap on the server (or a
	// response cap on the client) below 4/3 of the client's batch limit rejects batches the same DA
	// accepts in-process.
	c.Doc("C16-R6", "CT: any request/response size limit configured on the JSON-RPC server or client is at least 4/3 of the client's batch limit (base64) — otherwise large legal batches fail only behind the proxy.")
	{
		var limit int64
		// the client's batch limit: the constant stored into MaxBlobSize
		for _, fn := range dp.Funcs {
			pk := fnPkg(fn)
			if pk == nil || pk.Pkg.Path() != jsonrpcPkg {
				continue
			}
			for _, b := range fn.Blocks {
				for _, in := range b.Instrs {
					st, ok := in.(*ssa.Store)
					if !ok {
						continue
					}
					fa, ok := st.Addr.(*ssa.FieldAddr)
					if !ok || fieldLabel(fa.X.Type(), fa.Field) != "MaxBlobSize" {
						continue
					}
					if k, ok := st.Val.(*ssa.Const); ok && k.Value != nil {
						limit = k.Int64()
					}
				}
			}
		}
		nOpt := 0
		for _, fn := range dp.Funcs {
			pk := fnPkg(fn)
			if pk == nil || pk.Pkg.Path() != jsonrpcPkg {
				continue
			}
			for _, b := range fn.Blocks {
				for _, in := range b.Instrs {
					call, ok := in.(*ssa.Call)
					if !ok {
						continue
					}
					cn := commonName(call.Common())
					if !strings.Contains(cn, "go-jsonrpc.WithMaxRequestSize") && !strings.Contains(cn, "go-jsonrpc.WithMaxResponseSize") {
						continue
					}
					nOpt++
					inst := fnShort(fn) + " ⟂ " + cn[strings.LastIndex(cn, ".")+1:]
					k, isK := call.Common().Args[0].(*ssa.Const)
					need := (limit*4 + 2) / 3
					switch {
					case limit == 0:
						c.Unk("C16-R6", inst, fnName(fn), dp.InstrPos(in), "anchor lost: the client's batch limit (constant stored into MaxBlobSize)")
					case !isK:
						c.Unk("C16-R6", inst, fnName(fn), dp.InstrPos(in), "the size limit is not a constant")
					case k.Int64() >= need:
						c.OK("C16-R6", inst, fnName(fn), dp.InstrPos(in), fmt.Sprintf("limit %d >= 4/3 of the client's batch limit %d", k.Int64(), limit), true)
					default:
						c.Bad("C16-R6", inst, fnName(fn), dp.InstrPos(in), fmt.Sprintf("the transport limit %d is below %d, the base64 size of the %d raw bytes the client puts into one call: a legal batch is rejected by the transport with a generic error while the same DA called directly accepts it", k.Int64(), need, limit), nil)
					}
				}
			}
		}
		if nOpt == 0 {
			if limit == 0 {
				c.Unk("C16-R6", "transport-limits", "", "", "anchor lost: the client's batch limit (constant stored into MaxBlobSize)")
			} else {
				c.OK("C16-R6", "transport-limits", "", "", fmt.Sprintf("no request/response size limit is configured on the JSON-RPC server or client (client batch limit %d)", limit), true)
			}
		}
		c.MinInstances("C16-R6", 1)
	}
	// ---- R9: the proxy adds no deadline of its own. In-process, the only deadline of a DA call is
	// the caller's context (the submitter allows an attempt 60 s; a submission answers when the blob
	// is included or the DA gives up). A transport-level timeout in the client cuts slow but
	// successful answers short: the caller sees a context-deadline error where the same DA called
	// directly returns ids (or "not included"), and re-submits blobs that landed.
	c.Doc("C16-R9", "BO: the JSON-RPC client adds no deadline of its own to a call — no http.Client with a Timeout, no go-jsonrpc timeout option, no context.WithTimeout/WithDeadline in the package: the caller's context is the only deadline, as in-process.")
	{
		var bad []string
		sites := 0
		for _, fn := range dp.Funcs {
			pk := fnPkg(fn)
			if pk == nil || pk.Pkg.Path() != jsonrpcPkg || fn.Blocks == nil {
				continue
			}
			for _, b := range fn.Blocks {
				for _, in := range b.Instrs {
					switch x := in.(type) {
					case *ssa.Call:
						cn := commonName(x.Common())
						sites++
						if strings.HasSuffix(cn, "go-jsonrpc.WithTimeout") || cn == "context.WithTimeout" || cn == "context.WithDeadline" || strings.HasSuffix(cn, "go-jsonrpc.WithHTTPClient") {
							if strings.HasSuffix(cn, "go-jsonrpc.WithHTTPClient") {
								continue // judged by the http.Client it is given (below)
							}
							bad = append(bad, cn[strings.LastIndex(cn, "/")+1:]+" @"+dp.InstrPos(in))
						}
					case *ssa.Store:
						fa, ok := x.Addr.(*ssa.FieldAddr)
						if !ok || !strings.HasSuffix(fa.X.Type().String(), "net/http.Client") {
							continue
						}
						if st := derefStruct(fa.X.Type()); st != nil && st.Field(fa.Field).Name() == "Timeout" {
							if k, isK := x.Val.(*ssa.Const); !isK || k.Value == nil || k.Int64() != 0 {
								bad = append(bad, "http.Client.Timeout @"+dp.InstrPos(in))
							}
						}
					}
				}
			}
		}
		sort.Strings(bad)
		if len(bad) == 0 {
			c.OK("C16-R9", "client ⟂ no-deadline-of-its-own", "", "", fmt.Sprintf("no transport or context deadline is set anywhere in the proxy package (%d call sites looked at)", sites), true)
		} else {
			c.Bad("C16-R9", "client ⟂ no-deadline-of-its-own", "", "", "the proxy sets a deadline of its own ("+strings.Join(bad, ", ")+"): an answer that takes longer — a submission answers only when the blob is included — is cut off with a context-deadline error although the same DA called in-process returns ids or \"not included\"; the caller re-submits blobs that landed", nil)
		}
		if sites < 20 {
			c.Unk("C16-R9", "anchor-count", "", "", fmt.Sprintf("anchor lost: only %d call sites in the proxy package", sites))
		}
	}
	_ = sort.Strings
	ruleServerRequestContexts(c, dp, "C16-R10")
}

// ruleServerRequestContexts (C16-R10): the proxy hands the backing DA the context of the request
// it serves — derived by net/http from the connection, cancelled when the caller goes away. A
// BaseContext / ConnContext hook on the HTTP server replaces that root: with the context the
// server was *started* with (a start-up timeout, a lifecycle hook) every request is born
// cancelled once start-up is over, a DA that honours its context answers "context canceled" to a
// live caller, and the client classifies the call as cancelled — the same DA in-process answers.
func ruleServerRequestContexts(c *Check, dp *Prog, rule string) {
	c.Doc(rule, "CS: the proxy's HTTP server sets no BaseContext / ConnContext hook (or one that returns context.Background()): request contexts stay rooted in the request, not in a context whose lifetime is the server's start-up.")
	n := 0
	var bad []string
	for _, fn := range dp.Funcs {
		pk := fnPkg(fn)
		if pk == nil || !strings.HasSuffix(pk.Pkg.Path(), "/da/jsonrpc") || fn.Blocks == nil {
			continue
		}
		n++
		for _, b := range fn.Blocks {
			for _, in := range b.Instrs {
				st, ok := in.(*ssa.Store)
				if !ok {
					continue
				}
				fa, ok := st.Addr.(*ssa.FieldAddr)
				if !ok || !strings.HasSuffix(strings.TrimPrefix(fa.X.Type().String(), "*"), "net/http.Server") {
					continue
				}
				name := fieldLabel(fa.X.Type(), fa.Field)
				if name != "BaseContext" && name != "ConnContext" {
					continue
				}
				if k, isK := st.Val.(*ssa.Const); isK && k.Value == nil {
					continue
				}
				// a hook that hands back the background context changes nothing
				harmless := false
				if mc, isMC := st.Val.(*ssa.MakeClosure); isMC && len(mc.Bindings) == 0 {
					if hf, _ := mc.Fn.(*ssa.Function); hf != nil {
						harmless = true
						for _, hb := range hf.Blocks {
							if ret, isRet := hb.Instrs[len(hb.Instrs)-1].(*ssa.Return); isRet && len(ret.Results) == 1 {
								t := TermOf(ret.Results[0], &Ctx{Fn: hf})
								if !(t.Op == "call" && (t.Name == "context.Background" || t.Name == "context.TODO")) {
									harmless = false
								}
							}
						}
					}
				}
				if !harmless {
					bad = append(bad, name+" set in "+fnShort(fn)+"@"+dp.InstrPos(in))
				}
			}
		}
	}
	sort.Strings(bad)
	switch {
	case n == 0:
		c.Unk(rule, "server ⟂ request contexts", "", "", "anchor lost: no function of the proxy package")
	case len(bad) == 0:
		c.OK(rule, "server ⟂ request contexts rooted in the request", "", "", fmt.Sprintf("no BaseContext / ConnContext hook in the proxy package (%d functions)", n), true)
	default:
		c.Bad(rule, "server ⟂ request contexts rooted in the request", "", "", "the proxy's HTTP server replaces the root of every request context ("+strings.Join(bad, ", ")+"): when that context ends while the server keeps serving — a start-up scoped context — every call reaches the backing DA already cancelled although the caller's context is alive, and the client reports cancellation for calls the same DA answers in-process", nil)
	}
	c.MinInstances(rule, 1)
}

// helperIsWireSafe: the helper's accepting alternatives include message containment of its
// target parameter next to errors.Is.
func helperIsWireSafe(p *Prog, fn *ssa.Function) bool {
	hasIs, hasContains := false, false
	for _, b := range fn.Blocks {
		for _, in := range b.Instrs {
			call, ok := in.(*ssa.Call)
			if !ok {
				continue
			}
			t := TermOf(call, &Ctx{Fn: fn})
			switch commonName(call.Common()) {
			case "errors.Is":
				if t.Args[1].Op == "param" {
					hasIs = true
				}
			case "strings.Contains":
				if len(t.Args) == 2 && t.Args[1].Op == "invoke" && t.Args[1].Name == "(error).Error" && t.Args[1].Args[0].Op == "param" &&
					t.Args[0].Op == "invoke" && t.Args[0].Name == "(error).Error" {
					hasContains = true
				}
			}
		}
	}
	if !hasContains {
		return false
	}
	// containment must be an accepting alternative on its own
	for _, alt := range p.AcceptDNF(fn, nil, 0, 0) {
		for _, f := range alt {
			if f.Pol && f.Cond.IsCall("strings.Contains") {
				return true
			}
		}
	}
	_ = hasIs
	return false
}

func calleeUsesIdentity(p *Prog, fn *ssa.Function) bool {
	for _, b := range fn.Blocks {
		for _, in := range b.Instrs {
			if call, ok := in.(*ssa.Call); ok && commonName(call.Common()) == "errors.Is" {
				return true
			}
		}
	}
	return false
}

// cellOfLoad: v is a load of a local variable kept in memory (directly or through the free
// variable of a closure bound to it); returns that variable's cell.
func cellOfLoad(v ssa.Value, ctx *Ctx) *ssa.Alloc {
	u, ok := v.(*ssa.UnOp)
	if !ok || u.Op != token.MUL {
		return nil
	}
	switch a := u.X.(type) {
	case *ssa.Alloc:
		return a
	case *ssa.FreeVar:
		for c := ctx; c != nil; c = c.ClosureCtx {
			if c.Closure == nil || c.Fn != a.Parent() {
				continue
			}
			for i, fv := range a.Parent().FreeVars {
				if fv == a && i < len(c.Closure.Bindings) {
					if al, ok := c.Closure.Bindings[i].(*ssa.Alloc); ok {
						return al
					}
				}
			}
		}
	}
	return nil
}

// fieldCellOfLoad: v loads a field of a local struct variable (a counter kept in a result bundle).
func fieldCellOfLoad(v ssa.Value) (*ssa.Alloc, int, bool) {
	u, ok := v.(*ssa.UnOp)
	if !ok || u.Op != token.MUL {
		return nil, 0, false
	}
	fa, ok := u.X.(*ssa.FieldAddr)
	if !ok {
		return nil, 0, false
	}
	al, ok := fa.X.(*ssa.Alloc)
	if !ok {
		return nil, 0, false
	}
	return al, fa.Field, true
}
