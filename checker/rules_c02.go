package main

import (
	"fmt"
	"go/token"
	"go/types"
	"strings"

	"golang.org/x/tools/go/ssa"
)

func init() {
	register("C02", &propDef{
		run: runC02,
		explanation: "Decides, for every path of the sync loop and its apply step: R1 the header and data applied are the cache entries at the same height Store.Height()+1; " +
			"R2 execution and every write are guarded by validation of those very values (with C01-R2 this gives height = last+1, app-hash chaining and the data commitment whatever the delivery order); " +
			"R3 a cache entry is evicted only after the height write of its iteration succeeded; R4 data is synthesised without a data event only for headers carrying the empty-data hash and has no transactions; " +
			"R5 an incoming event is dropped without being cached only behind one of the enumerated duplicate/old guards; R6 census: Store.SetHeight is called only by NewManager, the production step and the apply step.",
		notDecided:  "Convergence (an eventuality over schedules); equality with the proposer's store; behaviour across restarts (C05); interleaving of DA and P2P ingress beyond both feeding the same guarded step.",
		assumptions: []string{"go-header stores and the caches' sync.Map are trusted", "Store/Executor are effect leaves"},
	})
}

// selectCaseEdges returns the true edges of `select#0 == k` for the case receiving from a
// channel whose term satisfies chanPred.
func selectCaseEdges(g *Graph, chanPred func(*Term) bool) []*Node {
	return g.Select(func(n *Node) bool {
		if n.Kind != NTrue {
			return false
		}
		ifi := n.In.(*ssa.If)
		b, ok := ifi.Cond.(*ssa.BinOp)
		if !ok || b.Op != token.EQL {
			return false
		}
		ex, ok := b.X.(*ssa.Extract)
		if !ok || ex.Index != 0 {
			return false
		}
		sel, ok := ex.Tuple.(*ssa.Select)
		if !ok {
			return false
		}
		k, ok := b.Y.(*ssa.Const)
		if !ok {
			return false
		}
		idx := int(k.Int64())
		if idx < 0 || idx >= len(sel.States) {
			return false
		}
		return chanPred(TermOf(sel.States[idx].Chan, n.Ctx))
	})
}

func fieldNamed(name string) func(*Term) bool {
	return func(t *Term) bool { return t.Op == "field" && t.Name == name }
}

func runC02(c *Check) {
	p := c.Mod(ModRoot)
	depth := 5
	if c.Thorough() {
		depth = 8
	}
	c.Doc("C02-R1", "VP: the header/data validated and applied are headerCache.GetItem(k) and dataCache.GetItem(k) with the same k = Store.Height()+1.")
	c.Doc("C02-R2", "EO+GA: Executor.ExecuteTxs, Store.UpdateState, SaveBlockData, SetHeight of an iteration only after Manager.Validate accepted (same values).")
	c.Doc("C02-R3", "EO: Cache.DeleteItem is freshly preceded by the success edge of Store.SetHeight.")
	c.Doc("C02-R4", "GA+VP: data synthesised by the sync loop is cached only under bytes.Equal(header.DataHash, dataHashForEmptyTxs) and carries no transactions.")
	c.Doc("C02-R5", "EO: in each event case of the sync loop, a path that returns to the select without Cache.SetItem passes one of the allowed skip guards.")
	c.Doc("C02-R6", "CS: call sites of Store.SetHeight: NewManager, the production step, the apply step.")

	steps := applyStep(c, p)
	for _, step := range steps {
		g := BuildECFG(p, step, ExpandOpts{MaxDepth: depth})
		c.NoteGraph(g)
		fn := fnName(step)
		isSave := IsCall(storeM("SaveBlockData"))
		isState := IsCall(storeM("UpdateState"))
		isHeight := IsCall(storeM("SetHeight"))
		isExec := IsCall(execM("ExecuteTxs"))
		isValidate := func(t *Term) bool { return t.IsCall("block.Manager).Validate") }
		validOK := g.Select(ErrNilEdge(isValidate))
		isPick := func(n *Node) bool { return strings.HasSuffix(CallName(n), "Cache[_]).GetItem") }
		if len(g.Select(isPick)) == 0 {
			c.Unk("C02-R1", fnShort(step)+" ⟂ GetItem", fn, "", "anchor lost: the apply step does not pick its items with Cache.GetItem")
			continue
		}
		if len(validOK) == 0 {
			c.Bad("C02-R2", fnShort(step)+" ⟂ Validate", fn, "", "no branch on Manager.Validate in the apply step", nil)
			continue
		}
		for _, e := range []struct {
			name string
			pred NodePred
		}{{"ExecuteTxs", isExec}, {"SaveBlockData", isSave}, {"UpdateState", isState}, {"SetHeight", isHeight}} {
			c.Decide("C02-R2", fnShort(step)+" ⟂ Validate<"+e.name, fn, posOf(g, e.pred), e.name+" only after successful validation in the same iteration",
				e.name+" reachable without successful validation in the same iteration", g, g.PrecedeSince(isPick, nodeSet(validOK), e.pred))
		}
		// R1
		ct, _ := CondTerm(validOK[0])
		var vcall *Term
		ct.Walk(func(t *Term) bool {
			if isValidate(t) {
				vcall = t
			}
			return true
		})
		if vcall != nil && len(vcall.Args) >= 4 {
			h, d := vcall.Args[2], vcall.Args[3]
			okH := h.Op == "call" && strings.HasSuffix(h.Name, "Cache[_]).GetItem") && h.Args[0].Op == "field" && h.Args[0].Name == "headerCache" && isHeightPlusOne(h.Args[1])
			okD := d.Op == "call" && strings.HasSuffix(d.Name, "Cache[_]).GetItem") && d.Args[0].Op == "field" && d.Args[0].Name == "dataCache" && isHeightPlusOne(d.Args[1])
			same := okH && okD && h.Args[1].String() == d.Args[1].String()
			if same {
				c.OK("C02-R1", fnShort(step)+" ⟂ next-height-items", fn, p.InstrPos(validOK[0].In), "validated items are headerCache/dataCache.GetItem(Store.Height()+1)", true)
			} else {
				c.Bad("C02-R1", fnShort(step)+" ⟂ next-height-items", fn, p.InstrPos(validOK[0].In), "the items validated/applied are not the cache entries at Store.Height()+1 of both caches: header="+trunc(genericName(h.String()), 120)+" data="+trunc(genericName(d.String()), 120), nil)
			}
			// executed/saved values are the validated ones
			for _, s := range g.Select(isSave) {
				if ArgTerm(s, 1).String() == h.String() && ArgTerm(s, 2).String() == d.String() {
					c.OK("C02-R1", fnShort(step)+" ⟂ saved=validated", fn, p.InstrPos(s.In), "saved header/data are the validated cache entries", true)
				} else {
					c.Bad("C02-R1", fnShort(step)+" ⟂ saved=validated", fn, p.InstrPos(s.In), "saved header/data differ from the validated ones", nil)
				}
			}
			for _, s := range g.Select(isHeight) {
				a := ArgTerm(s, 1)
				if strings.Contains(a.String(), "types.Header).Height(") && a.Contains(func(t *Term) bool { return t.String() == h.String() }) {
					c.OK("C02-R1", fnShort(step)+" ⟂ height=header.Height", fn, p.InstrPos(s.In), "the height written is the validated header's height", true)
				} else {
					c.Bad("C02-R1", fnShort(step)+" ⟂ height=header.Height", fn, p.InstrPos(s.In), "Store.SetHeight is not given the validated header's height: "+trunc(a.String(), 120), nil)
				}
			}
		}
		// R3
		isDelete := func(n *Node) bool { return strings.HasSuffix(CallName(n), "Cache[_]).DeleteItem") }
		isSetHeight := func(t *Term) bool { return t.IsCall("pkg/store.Store).SetHeight") }
		heightOK := g.Select(ErrNilEdge(func(t *Term) bool { return isSetHeight(t) || p.nilImpliesOK(t, isSetHeight, 2) }))
		if len(g.Select(isDelete)) > 0 {
			c.Decide("C02-R3", fnShort(step)+" ⟂ SetHeight-ok<DeleteItem", fn, posOf(g, isDelete), "cache entries are evicted only after the height write succeeded",
				"a cache entry can be evicted before the block is committed: the block is lost and sync stalls", g, g.PrecedeSince(isPick, nodeSet(heightOK), isDelete))
			for _, dn := range g.Select(isDelete) {
				if isHeightPlusOne(ArgTerm(dn, 1)) {
					c.OK("C02-R3", fnShort(step)+" ⟂ DeleteItem(next)", fn, p.InstrPos(dn.In), "the evicted entry is the applied height", true)
				} else {
					c.Bad("C02-R3", fnShort(step)+" ⟂ DeleteItem(next)", fn, p.InstrPos(dn.In), "DeleteItem is not called with the applied height Store.Height()+1: "+trunc(ArgTerm(dn, 1).String(), 80), nil)
				}
			}
		} else {
			c.Unk("C02-R3", fnShort(step)+" ⟂ DeleteItem", fn, "", "anchor lost: no Cache.DeleteItem in the apply step")
		}
	}
	// R7: the DA height persisted with the state
	c.Doc("C02-R7", "VP+EO: no value derived from the triggering event's DA height or from the scan cursor flows into the DAHeight of the state the apply step persists (events still queued at a stop are dropped; a restart resumes scanning at the persisted height and would never re-fetch them).")
	for _, step := range steps {
		g := BuildECFG(p, step, ExpandOpts{MaxDepth: 3})
		c.NoteGraph(g)
		fn := fnName(step)
		isState := IsCall(storeM("UpdateState"))
		n7 := 0
		for _, u := range g.Select(isState) {
			root := rootOf(ArgTerm(u, 1))
			if root == nil {
				continue
			}
			var al *ssa.Alloc
			if root.Op == "alloc" {
				al, _ = root.V.(*ssa.Alloc)
			} else if root.Op == "load" && root.Args[0].Op == "alloc" {
				al, _ = root.Args[0].V.(*ssa.Alloc)
			} else if ld, ok := root.V.(*ssa.UnOp); ok {
				al, _ = ld.X.(*ssa.Alloc)
			}
			if al == nil {
				// the state is an SSA value (never modified field-wise): nothing can be smuggled in
				n7++
				c.OK("C02-R7", fnShort(step)+" ⟂ persisted-DAHeight", fn, p.InstrPos(u.In), "the persisted state is the applier's result unmodified: "+trunc(root.String(), 80), true)
				continue
			}
			wholeStore := func(n *Node) bool { st, ok := n.In.(*ssa.Store); return ok && st.Addr == ssa.Value(al) }
			fieldStores := g.Select(func(n *Node) bool {
				st, ok := n.In.(*ssa.Store)
				if !ok {
					return false
				}
				fa, ok := st.Addr.(*ssa.FieldAddr)
				return ok && fa.X == ssa.Value(al)
			})
			clean := true
			for _, fs := range fieldStores {
				st := fs.In.(*ssa.Store)
				path := g.PathAvoiding([]*Node{fs}, nodeSet([]*Node{u}), wholeStore)
				if path == nil {
					continue // overwritten before it is persisted
				}
				v := TermOf(st.Val, fs.Ctx)
				tainted := false
				v.Walk(func(t *Term) bool {
					if t.Op == "param" && t.Name != step.Params[0].Name() && !strings.Contains(t.V.Type().String(), "context.Context") {
						tainted = true
					}
					if t.IsCall("atomic.Uint64).Load") && len(t.Args) > 0 && t.Args[0].Name == "daHeight" {
						tainted = true
					}
					return true
				})
				fld := TermOf(st.Addr, fs.Ctx).Name
				n7++
				if tainted {
					clean = false
					c.Bad("C02-R7", fnShort(step)+" ⟂ persisted-"+fld, fn, p.InstrPos(st), "the state persisted by the apply step carries "+fld+" ← "+trunc(v.String(), 100)+", derived from the triggering event's DA height / the scan cursor: after a stop with events still queued the scan resumes past blobs that were never applied", g.DescribePath(path))
				} else {
					c.OK("C02-R7", fnShort(step)+" ⟂ persisted-"+fld, fn, p.InstrPos(st), fld+" ← "+trunc(v.String(), 100), true)
				}
			}
			if clean && len(fieldStores) == 0 {
				n7++
				c.OK("C02-R7", fnShort(step)+" ⟂ persisted-DAHeight", fn, p.InstrPos(u.In), "no field of the persisted state is overwritten", true)
			} else if clean {
				n7++
				c.OK("C02-R7", fnShort(step)+" ⟂ persisted-state-fields", fn, p.InstrPos(u.In), "no field written before persisting derives from the event's DA height or the scan cursor", true)
			}
		}
		if n7 == 0 {
			c.Unk("C02-R7", fnShort(step)+" ⟂ persisted-DAHeight", fn, "", "anchor lost: no Store.UpdateState in the apply step")
		}
	}
	c.MinInstances("C02-R1", 3)
	c.MinInstances("C02-R2", 4)
	c.MinInstances("C02-R3", 3)

	// R4, R5 on the sync loop
	sl := p.MustFunc(loopSync)
	g := BuildECFG(p, sl, ExpandOpts{MaxDepth: 2})
	c.NoteGraph(g)
	fn := fnName(sl)
	isSetItem := func(n *Node) bool { return strings.HasSuffix(CallName(n), "Cache[_]).SetItem") }
	// R4: SetItem whose item is a Data literal (synthesised)
	for _, n := range g.Select(isSetItem) {
		item := ArgTerm(n, 2)
		if item == nil || item.Op != "alloc" {
			continue
		}
		al := item.V.(*ssa.Alloc)
		st := litStores(al)
		facts := g.FactsAt(nodeSet([]*Node{n}), 2)
		guarded := false
		for _, f := range facts {
			s := f.Cond.String()
			if f.Pol && f.Cond.Op == "call" && f.Cond.Name == "bytes.Equal" && strings.Contains(s, ".DataHash") && strings.Contains(s, "dataHashForEmptyTxs") {
				guarded = true
			}
		}
		_, hasTxs := st["Txs"]
		inst := fnShort(n.Ctx.Fn) + " ⟂ synthesised-data"
		if guarded && !hasTxs {
			c.OK("C02-R4", inst, fnName(n.Ctx.Fn), p.InstrPos(n.In), "synthesised Data (no Txs) is cached only for a header with the empty-data hash", true)
		} else {
			c.Bad("C02-R4", inst, fnName(n.Ctx.Fn), p.InstrPos(n.In), fmt.Sprintf("data synthesised without a data event: guarded-by-empty-hash=%v, sets Txs=%v", guarded, hasTxs), nil)
		}
	}
	c.MinInstances("C02-R4", 1)

	// R5
	selNodes := g.Select(func(n *Node) bool { _, ok := n.In.(*ssa.Select); return ok && n.Ctx.Depth == 0 })
	for _, ev := range []struct {
		ch      string
		allowed []string
	}{
		{"headerInCh", []string{"<=", "IsSeen", "Height-error"}},
		{"dataInCh", []string{"<=", "IsSeen", "Height-error", "no-txs", "no-metadata"}},
	} {
		edges := selectCaseEdges(g, fieldNamed(ev.ch))
		inst := "SyncLoop ⟂ " + ev.ch + " ⟂ only-duplicates-dropped"
		if len(edges) == 0 || len(selNodes) == 0 {
			c.Unk("C02-R5", inst, fn, "", "anchor lost: select case on "+ev.ch)
			continue
		}
		allowed := EdgeWhere(func(t *Term, pol bool, n *Node) bool {
			if n.Ctx.Depth > 1 {
				return false // the loop itself, or the handler it hands the event to
			}
			t, pol = normFact(t, pol)
			s := t.String()
			switch {
			case t.Op == "bin" && t.Name == "<=" && pol && strings.Contains(t.Args[1].String(), "pkg/store.Store).Height("):
				return true // item height <= store height
			case t.Op == "call" && strings.HasSuffix(t.Name, "Cache[_]).IsSeen") && pol:
				return true
			case t.Op == "bin" && t.Name == "!=" && pol && strings.Contains(s, "pkg/store.Store).Height(") && strings.HasSuffix(s, "#1 != nil)"):
				return true // store error
			case ev.ch == "dataInCh" && t.Op == "bin" && t.Name == "==" && pol && strings.Contains(s, ".Txs)") && strings.HasSuffix(s, "== 0)"):
				return true
			case ev.ch == "dataInCh" && t.Op == "bin" && t.Name == "==" && pol && strings.Contains(s, ".Metadata == nil"):
				return true
			}
			return false
		})
		exitOrLoop := orPred(nodeSet(selNodes), g.AnyExit())
		path := g.PathAvoiding(edges, exitOrLoop, orPred(isSetItem, allowed))
		c.Decide("C02-R5", inst, fn, p.InstrPos(edges[0].In), "an event leaves its case without being cached only behind an allowed guard ("+strings.Join(ev.allowed, ", ")+")",
			"an event on "+ev.ch+" can be dropped without being cached and without one of the allowed duplicate/old guards: a genuine block part is lost", g, path)
	}
	c.MinInstances("C02-R5", 2)

	// R6 census
	mods := []string{ModRoot}
	if c.Thorough() {
		mods = append(mods, ModSingle, ModBased, ModTestapp, ModDA)
	}
	allowedFns := map[string]bool{blockF("NewManager"): true}
	for _, s := range productionStep(c, p) {
		allowedFns[fnName(s)] = true
	}
	for _, s := range steps {
		allowedFns[fnName(s)] = true
	}
	// an unexported helper that only the allowed writers call is part of them
	for changed := true; changed; {
		changed = false
		for _, f := range p.Funcs {
			pk := fnPkg(f)
			if pk == nil || pk.Pkg.Path() != rootPath+"/block" || allowedFns[fnName(f)] || f.Parent() != nil || (f.Object() != nil && f.Object().Exported()) {
				continue
			}
			callers := callersOf(p, f)
			all := len(callers) > 0
			for _, cl := range callers {
				if !allowedFns[fnName(topParent(cl))] {
					all = false
				}
			}
			if all {
				allowedFns[fnName(f)] = true
				changed = true
			}
		}
	}
	n := 0
	for _, mn := range mods {
		mp := c.Mod(mn)
		for _, f := range mp.Funcs {
			for _, b := range f.Blocks {
				for _, in := range b.Instrs {
					call, ok := in.(*ssa.Call)
					if !ok || commonName(call.Common()) != storeM("SetHeight") {
						continue
					}
					n++
					inst := "SetHeight in " + fnShort(f)
					if allowedFns[fnName(f)] {
						c.OK("C02-R6", inst, fnName(f), mp.InstrPos(in), "expected writer of the chain height", false)
					} else {
						c.Bad("C02-R6", inst, fnName(f), mp.InstrPos(in), "Store.SetHeight is called outside NewManager / the production step / the apply step: the height can move without a validated block", nil)
					}
				}
			}
		}
	}
	c.MinInstances("C02-R6", 3)
	c.Doc("C02-R8", "VP: the cursor of the P2P store polling loops is unchanged on the error path of the range read.")
	ruleP2PCursor(c, p)
	c.Doc("C02-R9", "EO: in the sync loop an event's hash is marked seen only after the sync attempt of the same iteration returned without error (a seen mark is persisted with the cache and makes every re-delivery a duplicate: set before a failed attempt it leaves the block unapplied for good).")
	ruleSeenOnlyAfterSyncAttempt(c, p, steps)
	ruleApplyStepNilMeansCaughtUp(c, p, "C02-R16", steps)
	ruleMarksAfterItems(c, p, "C02-R10")
	ruleSeenCensus(c, p, "C02-R12", steps)
	ruleItemRemovalCensus(c, p, "C02-R17", steps)
	c.Doc("C02-R13", "= C05-R2: on every start the chain height is raised to the persisted state's height (the apply step writes block, state, height in that order: a stop between the state and the height write leaves the store height one behind; the sync loop picks the next block by the store height and validates it against the state, so without the reconciliation every re-delivery of that block fails validation and the node gives up at every start).")
	ruleRestartReconciliation(c, p, "C02-R13")
	ruleDropDecisionsArePure(c, p, "C02-R14")
	ruleWakeChannelBuffered(c, p, "C02-R15", "HeaderStoreRetrieveLoop", "DataStoreRetrieveLoop", "RetrieveLoop")
	c.MinInstances("C02-R15", 3)
	ruleHandOffNotUnderDeadline(c, p, "C02-R11")
}

// ruleP2PCursor (C02-R8): the polling loops over the P2P header/data stores keep a cursor (the
// last store height handed over). On the error path of the range read the cursor must stay
// unchanged, otherwise the heights of that range are never handed to sync.
func ruleP2PCursor(c *Check, p *Prog) {
	rule := "C02-R8"
	n := 0
	for _, fn := range funcsCalling(p, rootPath+"/block", func(name string) bool {
		return strings.HasPrefix(genericName(name), "(github.com/celestiaorg/go-header.Store[_]).Height")
	}) {
		// loop-carried cursor: a phi one of whose incoming values is the store height
		for _, b := range fn.Blocks {
			for _, in := range b.Instrs {
				phi, ok := in.(*ssa.Phi)
				if !ok {
					continue
				}
				var newH ssa.Value
				for _, e := range phi.Edges {
					if call, ok := e.(*ssa.Call); ok && call.Common().IsInvoke() && strings.Contains(call.Common().Method.FullName(), "go-header.Store") && call.Common().Method.Name() == "Height" {
						newH = e
					}
				}
				if newH == nil {
					continue
				}
				// the range read: a repo call taking cursor+1
				var errBlocks []*ssa.BasicBlock
				for _, bb := range fn.Blocks {
					for _, ci := range bb.Instrs {
						call, ok := ci.(*ssa.Call)
						if !ok || call.Common().StaticCallee() == nil || !p.InRepo(call.Common().StaticCallee()) {
							continue
						}
						uses := false
						for _, a := range call.Common().Args {
							if bo, ok := a.(*ssa.BinOp); ok && bo.X == ssa.Value(phi) {
								uses = true
							}
						}
						if !uses {
							continue
						}
						// its error check
						for _, r := range *call.Referrers() {
							ex, ok := r.(*ssa.Extract)
							if !ok {
								continue
							}
							for _, rr := range *ex.Referrers() {
								bo, ok := rr.(*ssa.BinOp)
								if !ok {
									continue
								}
								for _, r3 := range *bo.Referrers() {
									if ifi, ok := r3.(*ssa.If); ok {
										if pol, isTest := nilTestOf(ifi.Cond, ex); isTest {
											if pol {
												errBlocks = append(errBlocks, ifi.Block().Succs[0])
											} else {
												errBlocks = append(errBlocks, ifi.Block().Succs[1])
											}
										}
									}
								}
							}
						}
					}
				}
				if len(errBlocks) == 0 {
					// the cursor is advanced before the read (cursor+1 computed earlier): look for a read using a value derived from the phi
					c.Bad(rule, fnShort(fn)+" ⟂ cursor-unchanged-on-read-error", fnName(fn), p.InstrPos(phi), "the range read of the P2P store does not take cursor+1 directly, or its error is not checked: cannot relate the cursor update to the success of the read", nil)
					n++
					continue
				}
				n++
				bad := ""
				for i, e := range phi.Edges {
					pred := b.Preds[i]
					for _, eb := range errBlocks {
						if eb.Dominates(pred) && e != ssa.Value(phi) {
							bad = TermOf(e, &Ctx{Fn: fn}).String()
						}
					}
				}
				if bad == "" {
					c.OK(rule, fnShort(fn)+" ⟂ cursor-unchanged-on-read-error", fnName(fn), p.InstrPos(phi), "on the error path of the range read the cursor keeps its value (the range is read again on the next poll)", true)
				} else {
					c.Bad(rule, fnShort(fn)+" ⟂ cursor-unchanged-on-read-error", fnName(fn), p.InstrPos(phi), "on the error path of the range read the cursor is set to "+trunc(genericName(bad), 80)+": after a transient store error the heights of that range are never handed to sync and the node stays stuck below them", nil)
				}
			}
		}
	}
	if n < 2 {
		c.Unk(rule, "p2p-store-loops", "", "", fmt.Sprintf("anchor lost: %d polling loops with a store-height cursor (2 confirmed by hand)", n))
	}
}

// ruleSeenOnlyAfterSyncAttempt (C02-R9).
func ruleSeenOnlyAfterSyncAttempt(c *Check, p *Prog, steps []*ssa.Function) {
	rule := "C02-R9"
	loop := p.MustFunc(loopSync)
	g := BuildECFG(p, loop, ExpandOpts{MaxDepth: 1, Stop: func(fn *ssa.Function) bool {
		for _, s := range steps {
			if s == fn {
				return true
			}
		}
		return false
	}})
	c.NoteGraph(g)
	isStepCall := func(t *Term) bool {
		cv, ok := t.V.(*ssa.Call)
		if !ok || t.Op != "call" {
			return false
		}
		for _, s := range steps {
			if cv.Common().StaticCallee() == s {
				return true
			}
		}
		return false
	}
	syncOK := g.Select(ErrNilEdge(isStepCall))
	sel := g.Select(func(n *Node) bool { s, ok := n.In.(*ssa.Select); return ok && s.Blocking })
	marks := g.Select(func(n *Node) bool { return strings.HasSuffix(CallName(n), "Cache[_]).SetSeen") })
	if len(syncOK) == 0 || len(sel) == 0 || len(marks) == 0 {
		c.Unk(rule, "SyncLoop ⟂ anchors", fnName(loop), "", fmt.Sprintf("anchor lost: %d sync-attempt success edges, %d selects, %d seen marks in the sync loop", len(syncOK), len(sel), len(marks)))
		return
	}
	for _, mk := range marks {
		mk := mk
		kind := "header"
		if r := RecvTerm(mk); r != nil && r.Name == "dataCache" {
			kind = "data"
		}
		c.Decide(rule, "SyncLoop ⟂ "+kind+"-seen-only-after-sync-attempt", fnName(loop), p.InstrPos(mk.In), "the "+kind+" hash is marked seen only after the sync attempt of the iteration succeeded",
			"the "+kind+" hash can be marked seen before (or without) a successful sync attempt in the same iteration: if the attempt then fails and the node stops, the restored cache holds the item as seen, every re-delivery is dropped as a duplicate and nothing triggers the apply again", g,
			g.PrecedeSince(nodeSet(sel), nodeSet(syncOK), func(n *Node) bool { return n == mk }))
	}
	c.MinInstances(rule, 2)
}

// ruleHandOffNotUnderDeadline (C02-R11 / C09-R9): what a scanning loop found is handed to the sync
// loop by a send that also waits for ctx.Done — a guard written for shutdown. When that context
// carries a deadline (the fetch timeout moved up to cover the whole DA height) a hand-off that
// has to wait for room is abandoned when the deadline passes, the remaining blobs of the height
// are dropped with it, the step returns nil and the scan moves on: blocks the node has fetched
// are never applied. The context that guards a hand-off is the loop's own, with no deadline.
func ruleHandOffNotUnderDeadline(c *Check, p *Prog, rule string) {
	c.Doc(rule, "BO: every send on the sync loop's event channels waits, besides the channel, only for a context without a deadline (the loop's own context, not one derived with WithTimeout / WithDeadline): a slow consumer delays the hand-off, it never cancels it.")
	n := 0
	for _, l := range []string{"RetrieveLoop", "HeaderStoreRetrieveLoop", "DataStoreRetrieveLoop"} {
		root := p.MustFunc(mgrM(l))
		g := BuildECFG(p, root, ExpandOpts{MaxDepth: 5})
		c.NoteGraph(g)
		for _, nd := range g.Nodes {
			sel, ok := nd.In.(*ssa.Select)
			if !ok || !g.Live()[nd] || nd.Kind != NInstr {
				continue
			}
			sends := false
			var doneOf *Term
			for _, st := range sel.States {
				switch st.Dir {
				case types.SendOnly:
					ch := TermOf(st.Chan, nd.Ctx)
					if ch.Op == "field" && (ch.Name == "headerInCh" || ch.Name == "dataInCh") {
						sends = true
					}
				case types.RecvOnly:
					t := TermOf(st.Chan, nd.Ctx)
					if t.Op == "invoke" && t.Name == "(context.Context).Done" && len(t.Args) > 0 {
						doneOf = t.Args[0]
					}
				}
			}
			if !sends {
				continue
			}
			n++
			inst := fmt.Sprintf("%s ⟂ hand-off in %s waits for no deadline", l, fnShort(nd.Ctx.Fn))
			switch {
			case doneOf == nil:
				c.OK(rule, inst, fnName(nd.Ctx.Fn), p.InstrPos(nd.In), "the send waits for the channel only", true)
			case p.DeepContains(doneOf, func(t *Term) bool {
				return t.IsCall("context.WithTimeout") || t.IsCall("context.WithDeadline") || t.IsCall("context.WithTimeoutCause") || t.IsCall("context.WithDeadlineCause")
			}, 1):
				c.Bad(rule, inst, fnName(nd.Ctx.Fn), p.InstrPos(nd.In), "the hand-off to the sync loop is abandoned when a deadline passes ("+trunc(doneOf.String(), 90)+"): with a busy sync loop the items fetched for this height are dropped, the step still returns nil and the scan moves past the height — the blocks are never applied from what was fetched", nil)
			default:
				c.OK(rule, inst, fnName(nd.Ctx.Fn), p.InstrPos(nd.In), "the only other thing the send waits for is the loop's context ("+trunc(doneOf.String(), 50)+"), which has no deadline", true)
			}
		}
	}
	if n < 3 {
		c.Unk(rule, "anchor-count", "", "", fmt.Sprintf("anchor lost: only %d hand-offs to the sync loop found in the scanning loops", n))
	}
}

// ruleSeenCensus (C02-R12 / C05-R9): a hash marked seen makes every later delivery of the item a
// duplicate that the sync loop and the DA handlers drop. Census of every call of the cache's
// SetSeen in the repository: it sits in the sync loop's event handlers (ordered by C02-R9), in the
// production step (a sequencer's own block) or in the apply step behind the success edge of
// Store.SetHeight (the block is committed). A mark set anywhere else — while restoring, while
// scanning — can cover a block that is stored but not applied (the apply step saves the block
// before the state and the height): after a crash in that window the node refuses the block for good.
func ruleSeenCensus(c *Check, p *Prog, rule string, steps []*ssa.Function) {
	c.Doc(rule, "CS+EO: every call of the seen-mark setter is in the sync loop's event handler (C02-R9), in the production step, or in the apply step behind the success edge of Store.SetHeight; nowhere else (a mark set from what the store holds covers a block that was saved but not applied before a crash: its re-delivery is then dropped for good).")
	allowed := map[*ssa.Function]string{}
	for _, s := range steps {
		allowed[s] = "apply"
	}
	for _, s := range productionStep(c, p) {
		allowed[s] = "produce"
	}
	loop := p.MustFunc(loopSync)
	allowed[loop] = "loop"
	// the loop's own event handlers: unexported functions called only from the loop
	for _, f := range p.Funcs {
		pk := fnPkg(f)
		if pk == nil || pk.Pkg.Path() != rootPath+"/block" || f.Parent() != nil || allowed[f] != "" {
			continue
		}
		callers := callersOf(p, f)
		all := len(callers) > 0
		for _, cl := range callers {
			if topParent(cl) != loop {
				all = false
			}
		}
		if all {
			allowed[f] = "loop"
		}
	}
	n := 0
	for _, f := range p.Funcs {
		pk := fnPkg(f)
		if pk == nil || !strings.HasPrefix(pk.Pkg.Path(), rootPath) || f.Blocks == nil || strings.HasSuffix(pk.Pkg.Path(), "/pkg/cache") {
			continue
		}
		hasMark := false
		for _, b := range f.Blocks {
			for _, in := range b.Instrs {
				if call, ok := in.(*ssa.Call); ok && strings.HasSuffix(genericName(commonName(call.Common())), "Cache[_]).SetSeen") {
					hasMark = true
				}
			}
		}
		if !hasMark {
			continue
		}
		top := topParent(f)
		g := BuildECFG(p, f, ExpandOpts{MaxDepth: 0})
		c.NoteGraph(g)
		for _, mk := range g.Select(func(n *Node) bool { return strings.HasSuffix(CallName(n), "Cache[_]).SetSeen") }) {
			mk := mk
			n++
			inst := "SetSeen in " + fnShort(f) + " ⟂ " + trunc(RecvTerm(mk).String(), 30)
			switch allowed[top] {
			case "loop":
				c.OK(rule, inst, fnName(f), p.InstrPos(mk.In), "in the sync loop's event handler (ordered after the sync attempt by C02-R9)", false)
			case "produce":
				c.OK(rule, inst, fnName(f), p.InstrPos(mk.In), "in the production step: the sequencer's own block", false)
			case "apply":
				// the height write may sit in a helper of the step: looked for two calls deep
				ga := BuildECFG(p, f, ownPkgOpts(rootPath+"/block", 2))
				c.NoteGraph(ga)
				hOK := ga.Select(ErrNilEdge(func(t *Term) bool { return t.IsCall("pkg/store.Store).SetHeight") }))
				isMk := func(x *Node) bool { return x.In == mk.In && x.Ctx.Depth == 0 && x.Kind == mk.Kind }
				c.Decide(rule, inst, fnName(f), p.InstrPos(mk.In), "in the apply step, behind the success edge of Store.SetHeight",
					"the apply step marks a hash seen on a path that has not passed the successful Store.SetHeight of the block: the mark can cover a block that is not committed", ga,
					ga.PathAvoiding([]*Node{ga.Entry}, isMk, nodeSet(hOK)))
			default:
				c.Bad(rule, inst, fnName(f), p.InstrPos(mk.In), "a hash is marked seen outside the sync loop's handlers, the production step and the apply step: a mark derived from anything but a committed block (e.g. from what the store holds at start-up) also covers a block that was saved but not yet applied when the node crashed — the sync loop and the DA handlers then drop every re-delivery of it and the node never passes that height", nil)
			}
		}
	}
	if n == 0 {
		c.Unk(rule, "seen-marks", "", "", "anchor lost: no call of the seen-mark setter found")
	}
	c.MinInstances(rule, 4)
}

// ruleApplyStepNilMeansCaughtUp (C02-R16 / C05-R12): the sync loop reads a nil return of the apply
// step as "this event has been dealt with" and marks it seen — a mark that is persisted with the
// cache and turns every re-delivery into a duplicate. The apply step therefore returns nil only
// through the edge that shows a part of the next block missing from the caches (everything
// applicable has been applied); a stop request, or anything else that ends the attempt early, is
// an error return, which leaves the event unmarked.
func ruleApplyStepNilMeansCaughtUp(c *Check, p *Prog, rule string, steps []*ssa.Function) {
	c.Doc(rule, "EO: every nil return of the apply step is behind the nil edge of a cache lookup of the next height (nothing more can be applied); in particular the stop-request exit returns an error, so the triggering event is not marked seen without having been applied.")
	n := 0
	for _, step := range steps {
		g := BuildECFG(p, step, ExpandOpts{MaxDepth: 0})
		c.NoteGraph(g)
		missing := g.Select(EdgeWhere(func(t *Term, pol bool, _ *Node) bool {
			t, pol = normFact(t, pol)
			if t.Op != "bin" || len(t.Args) != 2 || t.Args[1].Name != "nil" {
				return false
			}
			if !((t.Name == "==" && pol) || (t.Name == "!=" && !pol)) {
				return false
			}
			return p.DeepContains(t.Args[0], func(x *Term) bool {
				return x.Op == "call" && strings.HasSuffix(genericName(x.Name), "pkg/cache.Cache[_]).GetItem")
			}, 2)
		}))
		var nilExits []*Node
		for _, x := range g.Exits {
			if g.ExitClass(x) != rcA {
				nilExits = append(nilExits, x)
			}
		}
		if len(missing) == 0 || len(nilExits) == 0 {
			c.Unk(rule, fnShort(step)+" ⟂ nil only when caught up", fnName(step), "", fmt.Sprintf("anchor lost: %d missing-part edges, %d non-error returns", len(missing), len(nilExits)))
			continue
		}
		n++
		c.Decide(rule, fnShort(step)+" ⟂ nil only when caught up", fnName(step), p.InstrPos(missing[0].In),
			"the apply step reports success only after finding the next block incomplete in the caches",
			"the apply step can return nil without having found the next block incomplete (for example on the stop request): the sync loop takes nil for \"handled\" and marks the triggering event seen; the mark is saved with the cache, and after the restart every re-delivery of that event is dropped as a duplicate before the apply step is reached — both parts of the block are cached, and it is never applied", g,
			g.PathAvoiding([]*Node{g.Entry}, nodeSet(nilExits), nodeSet(missing)))
	}
	if n == 0 {
		c.Unk(rule, "anchor-count", "", "", "anchor lost: no apply step decided")
	}
}

// ruleItemRemovalCensus (C05-R12 = C02-R17): a header or data item waiting in the caches is the
// only copy the node has of a block part it has already marked seen — a re-delivery is dropped
// as a duplicate. An item therefore leaves a cache only when its block is committed: every call
// of a cache method that removes items is in the apply step, behind the success edge of
// Store.SetHeight. Who may remove: the methods of the cache that delete from the item map are
// found by what they do, so a new "prune" method is under the same rule as DeleteItem.
func ruleItemRemovalCensus(c *Check, p *Prog, rule string, steps []*ssa.Function) {
	c.Doc(rule, "CS+EO: every call, outside the cache package, of a cache method that deletes from the item map (found by behaviour: a sync.Map Delete / LoadAndDelete / Clear / Range-and-Delete on the map GetItem reads) is in the apply step behind the success edge of Store.SetHeight; nowhere else — not at start-up, not on a timer.")
	cachePkg := rootPath + "/pkg/cache"
	// the item map: the receiver field GetItem loads from
	itemField := ""
	for _, f := range p.Funcs {
		if pk := fnPkg(f); pk == nil || pk.Pkg.Path() != cachePkg || f.Name() != "GetItem" {
			continue
		}
		for _, b := range f.Blocks {
			for _, in := range b.Instrs {
				if call, ok := in.(*ssa.Call); ok && strings.HasSuffix(commonName(call.Common()), "sync.Map).Load") && len(call.Common().Args) > 0 {
					if ld, ok := call.Common().Args[0].(*ssa.UnOp); ok {
						if fa, ok := ld.X.(*ssa.FieldAddr); ok {
							itemField = fieldLabel(fa.X.Type(), fa.Field)
						}
					}
				}
			}
		}
	}
	if itemField == "" {
		c.Unk(rule, "cache ⟂ item map", "", "", "anchor lost: the map GetItem reads")
		return
	}
	removers := map[string]bool{}
	for _, f := range p.Funcs {
		pk := fnPkg(f)
		if pk == nil || pk.Pkg.Path() != cachePkg || f.Blocks == nil {
			continue
		}
		for _, b := range f.Blocks {
			for _, in := range b.Instrs {
				call, ok := in.(ssa.CallInstruction)
				if !ok {
					continue
				}
				cn := commonName(call.Common())
				if !(strings.HasSuffix(cn, "sync.Map).Delete") || strings.HasSuffix(cn, "sync.Map).LoadAndDelete") || strings.HasSuffix(cn, "sync.Map).CompareAndDelete") || strings.HasSuffix(cn, "sync.Map).Clear")) || len(call.Common().Args) == 0 {
					continue
				}
				// the map: a load of the receiver's field, or (in a closure) of the captured receiver's field
				onItems := false
				var walk func(v ssa.Value, d int)
				walk = func(v ssa.Value, d int) {
					if v == nil || d > 4 {
						return
					}
					switch x := v.(type) {
					case *ssa.UnOp:
						walk(x.X, d+1)
					case *ssa.FieldAddr:
						if fieldLabel(x.X.Type(), x.Field) == itemField {
							onItems = true
						}
					}
				}
				walk(call.Common().Args[0], 0)
				if onItems {
					top := topParent(f)
					removers[genericName(fnName(top))] = true
				}
			}
		}
	}
	if len(removers) == 0 {
		c.Unk(rule, "cache ⟂ removers", "", "", "anchor lost: no cache method deletes from the item map")
		return
	}
	isApply := map[*ssa.Function]bool{}
	for _, s := range steps {
		isApply[s] = true
	}
	n := 0
	for _, f := range p.Funcs {
		pk := fnPkg(f)
		if pk == nil || !strings.HasPrefix(pk.Pkg.Path(), rootPath) || f.Blocks == nil || pk.Pkg.Path() == cachePkg {
			continue
		}
		var sites []ssa.Instruction
		for _, b := range f.Blocks {
			for _, in := range b.Instrs {
				if call, ok := in.(ssa.CallInstruction); ok && removers[genericName(commonName(call.Common()))] {
					sites = append(sites, in)
				}
			}
		}
		if len(sites) == 0 {
			continue
		}
		top := topParent(f)
		for _, site := range sites {
			site := site
			n++
			inst := "item removal in " + fnShort(f) + " ⟂ " + genericName(commonName(site.(ssa.CallInstruction).Common()))
			if !isApply[top] {
				c.Bad(rule, inst, fnName(f), p.InstrPos(site), "items are removed from a header / data cache outside the apply step: an item that is waiting for its block (its hash already marked seen, so a re-delivery is dropped as a duplicate) can be thrown away — the node then holds neither the part nor a way to get it again, and never passes that height", nil)
				continue
			}
			ga := BuildECFG(p, top, ownPkgOpts(rootPath+"/block", 2))
			c.NoteGraph(ga)
			hOK := ga.Select(ErrNilEdge(func(t *Term) bool { return t.IsCall("pkg/store.Store).SetHeight") }))
			isSite := func(x *Node) bool { return x.Kind == NInstr && x.In == site }
			c.Decide(rule, inst, fnName(f), p.InstrPos(site), "in the apply step, behind the success edge of Store.SetHeight",
				"the apply step removes an item from the cache on a path that has not passed the successful Store.SetHeight of its block: the part is gone while the block is not committed", ga,
				ga.PathAvoiding([]*Node{ga.Entry}, isSite, nodeSet(hOK)))
		}
	}
	if n == 0 {
		c.Unk(rule, "item removals", "", "", "anchor lost: no call of a removing cache method found")
	}
	c.MinInstances(rule, 2)
}
