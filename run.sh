#!/bin/bash
# usage: ./run.sh <Cnn> <quick|thorough> [--replay <file>]
# Static analysis of /repo's current working tree; nothing from /repo is executed.
set -u
HERE="$(cd "$(dirname "$0")" && pwd)"
export GOFLAGS=-mod=mod GOPROXY=off GOSUMDB=off GOTOOLCHAIN=local GOWORK=off
export PATH=/opt/veriftools/go1.26.8/bin:$PATH
REPO="${VERIF_REPO:-/repo}"
ID="${1:?property id}"; TIER="${2:-${VERIF_TIER:-quick}}"; shift; shift || true
BIN="$HERE/bin/checker"
build() {
  (cd "$HERE/checker" && go build -o "$BIN" .) || { echo "CHECK-BROKEN: checker does not build" >&2; exit 2; }
}
if [ "$ID" = "build" ]; then build; exit 0; fi
if [ -n "${VERIF_BIN:-}" ]; then BIN="$VERIF_BIN"  # a snapshot of the checker (tools/ only; never used by registered commands)
elif [ ! -x "$BIN" ] || [ -n "$(find "$HERE/checker" -newer "$BIN" \( -name '*.go' -o -name go.mod \) -print -quit)" ]; then build; fi
if [ "$ID" = "warm" ]; then "$BIN" -warm -repo "$REPO"; exit $?; fi
EXTRA=()
if [ "${1:-}" = "--replay" ]; then EXTRA=(-replay "$2"); fi
EVD="${VERIF_EVIDENCE_DIR:-$HERE/evidence}"
mkdir -p "$EVD"
"$BIN" -prop "$ID" -tier "$TIER" -repo "$REPO" -out "$EVD/$ID.json" -known "$HERE/known_findings.json" \
   -replay-out "$EVD/replay/$ID-$TIER.json" -variants "$HERE/variants" "${EXTRA[@]}"
rc=$?
exit $rc
