package executor

import (
	"context"
	"testing"
	"time"

	"github.com/stretchr/testify/require"
)

// F17: two instances fed the same blocks, finalised at different times, disagree on the state root.
func TestRepro_F17_FinalizationChangesStateRoot(t *testing.T) {
	ctx := context.Background()
	a, err := NewKVExecutor(t.TempDir(), "db")
	require.NoError(t, err)
	b, err := NewKVExecutor(t.TempDir(), "db")
	require.NoError(t, err)
	ra, _, err := a.InitChain(ctx, time.Now(), 1, "c")
	require.NoError(t, err)
	rb, _, err := b.InitChain(ctx, time.Now(), 1, "c")
	require.NoError(t, err)
	require.Equal(t, ra, rb)

	ra, _, err = a.ExecuteTxs(ctx, [][]byte{[]byte("k1=v1")}, 1, time.Now(), ra)
	require.NoError(t, err)
	rb, _, err = b.ExecuteTxs(ctx, [][]byte{[]byte("k1=v1")}, 1, time.Now(), rb)
	require.NoError(t, err)
	require.Equal(t, ra, rb)

	require.NoError(t, a.SetFinal(ctx, 1)) // proposer finalises height 1 early; the full node has not yet

	ra, _, err = a.ExecuteTxs(ctx, [][]byte{[]byte("k2=v2")}, 2, time.Now(), ra)
	require.NoError(t, err)
	rb, _, err = b.ExecuteTxs(ctx, [][]byte{[]byte("k2=v2")}, 2, time.Now(), rb)
	require.NoError(t, err)
	t.Logf("same transactions, different finalisation timing:\n  A=%q\n  B=%q", ra, rb)
	require.NotEqual(t, ra, rb)
}
