package config

import (
	"os"
	"path/filepath"
	"testing"

	"github.com/spf13/cobra"
	"github.com/stretchr/testify/require"
)

func reproC18Load(t *testing.T, args ...string) Config {
	t.Helper()
	cmd := &cobra.Command{Use: "test"}
	AddFlags(cmd)
	AddGlobalFlags(cmd, "test")
	require.NoError(t, cmd.ParseFlags(args))
	cfg, err := Load(cmd)
	require.NoError(t, err)
	return cfg
}

// An option set in the file of one Load must not become the default of the next Load in
// the same process: instrumentation.namespace has no flag, so nothing resets it.
func TestReproC18R11_FileValueLeaksIntoLaterDefaults(t *testing.T) {
	saved := *DefaultConfig.Instrumentation
	t.Cleanup(func() { *DefaultConfig.Instrumentation = saved })
	want := DefaultInstrumentationConfig().Namespace

	home1 := t.TempDir()
	yamlPath := filepath.Join(home1, AppConfigDir, ConfigName)
	require.NoError(t, os.MkdirAll(filepath.Dir(yamlPath), 0o700))
	require.NoError(t, os.WriteFile(yamlPath, []byte("instrumentation:\n  namespace: leaked\n"), 0o600))
	cfg1 := reproC18Load(t, "--home", home1)
	require.Equal(t, "leaked", cfg1.Instrumentation.Namespace)

	home2 := t.TempDir()
	cfg2 := reproC18Load(t, "--home", home2)
	require.Equal(t, want, cfg2.Instrumentation.Namespace, "no file, no flag -> default expected")
	require.Equal(t, want, DefaultConfig.Instrumentation.Namespace, "the package-level default must not change")
}
