package block

// Reproductions of findings predicted in /verif/DESIGN.md section 5, against the
// real code. They are triage aids (is the finding genuine?), not checks: every test
// PASSES when the defect is present and says what it observed.

import (
	"context"
	"errors"
	"fmt"
	"testing"
	"time"

	ds "github.com/ipfs/go-datastore"
	dssync "github.com/ipfs/go-datastore/sync"
	logging "github.com/ipfs/go-log/v2"
	"github.com/libp2p/go-libp2p/core/crypto"
	"github.com/stretchr/testify/require"

	coreda "github.com/evstack/ev-node/core/da"
	coreexecutor "github.com/evstack/ev-node/core/execution"
	coresequencer "github.com/evstack/ev-node/core/sequencer"
	"github.com/evstack/ev-node/pkg/config"
	genesispkg "github.com/evstack/ev-node/pkg/genesis"
	"github.com/evstack/ev-node/pkg/signer"
	noopsigner "github.com/evstack/ev-node/pkg/signer/noop"
	storepkg "github.com/evstack/ev-node/pkg/store"
	"github.com/evstack/ev-node/types"
)

// ---- scripted sequencer ----

type scriptedSeq struct {
	script []*coresequencer.GetNextBatchResponse
	i      int
}

func (s *scriptedSeq) SubmitBatchTxs(context.Context, coresequencer.SubmitBatchTxsRequest) (*coresequencer.SubmitBatchTxsResponse, error) {
	return &coresequencer.SubmitBatchTxsResponse{}, nil
}
func (s *scriptedSeq) GetNextBatch(context.Context, coresequencer.GetNextBatchRequest) (*coresequencer.GetNextBatchResponse, error) {
	if s.i >= len(s.script) {
		return &coresequencer.GetNextBatchResponse{Batch: &coresequencer.Batch{}, Timestamp: time.Now()}, nil
	}
	r := s.script[s.i]
	s.i++
	return r, nil
}
func (s *scriptedSeq) VerifyBatch(context.Context, coresequencer.VerifyBatchRequest) (*coresequencer.VerifyBatchResponse, error) {
	return &coresequencer.VerifyBatchResponse{Status: true}, nil
}

func batchResp(ts time.Time, txs ...string) *coresequencer.GetNextBatchResponse {
	b := &coresequencer.Batch{}
	for _, t := range txs {
		b.Transactions = append(b.Transactions, []byte(t))
	}
	return &coresequencer.GetNextBatchResponse{Batch: b, Timestamp: ts}
}

// ---- store that "crashes" before its n-th mutation ----

var errCrash = errors.New("CRASH")

type crashStore struct {
	storepkg.Store
	crashAt string // "<method>#<occurrence>"
	seen    map[string]int
	dead    bool
	log     []string
}

func (c *crashStore) hit(m string) error {
	if c.dead {
		return errCrash
	}
	if c.seen == nil {
		c.seen = map[string]int{}
	}
	c.seen[m]++
	if c.crashAt == fmt.Sprintf("%s#%d", m, c.seen[m]) {
		c.dead = true
		c.log = append(c.log, "CRASH before "+c.crashAt)
		return errCrash
	}
	c.log = append(c.log, m)
	return nil
}
func (c *crashStore) SetHeight(ctx context.Context, h uint64) error {
	if err := c.hit("SetHeight"); err != nil {
		return err
	}
	return c.Store.SetHeight(ctx, h)
}
func (c *crashStore) SaveBlockData(ctx context.Context, h *types.SignedHeader, d *types.Data, s *types.Signature) error {
	if err := c.hit("SaveBlockData"); err != nil {
		return err
	}
	return c.Store.SaveBlockData(ctx, h, d, s)
}
func (c *crashStore) UpdateState(ctx context.Context, s types.State) error {
	if err := c.hit("UpdateState"); err != nil {
		return err
	}
	return c.Store.UpdateState(ctx, s)
}

// ---- node assembly ----

type reproEnv struct {
	kv      ds.Batching
	gen     genesispkg.Genesis
	sgn     signer.Signer
	priv    crypto.PrivKey
	rootDir string
}

func newReproEnv(t *testing.T, initialHeight uint64) *reproEnv {
	priv, _, err := crypto.GenerateKeyPair(crypto.Ed25519, 256)
	require.NoError(t, err)
	sgn, err := noopsigner.NewNoopSigner(priv)
	require.NoError(t, err)
	addr, err := sgn.GetAddress()
	require.NoError(t, err)
	return &reproEnv{
		kv:      dssync.MutexWrap(ds.NewMapDatastore()),
		gen:     genesispkg.NewGenesis("repro", initialHeight, time.Now().Add(-time.Hour), addr),
		sgn:     sgn,
		priv:    priv,
		rootDir: t.TempDir(),
	}
}

func (e *reproEnv) manager(t *testing.T, st storepkg.Store, sgn signer.Signer, exec coreexecutor.Executor, seq coresequencer.Sequencer, da coreda.DA, maxPending uint64) *Manager {
	cfg := config.DefaultConfig
	cfg.RootDir = e.rootDir
	cfg.Node.MaxPendingHeadersAndData = maxPending
	nop := func() {}
	_ = nop
	m, err := NewManager(context.Background(), sgn, cfg, e.gen, st, exec, seq, da, logging.Logger("repro"),
		nil, nil,
		broadcasterFn[*types.SignedHeader](func(context.Context, *types.SignedHeader) error { return nil }),
		broadcasterFn[*types.Data](func(context.Context, *types.Data) error { return nil }),
		NopMetrics(), -1, 0, DefaultManagerOptions())
	require.NoError(t, err)
	return m
}

// F01: an EMPTY batch whose timestamp is earlier than the last header's poisons the
// next height for good.
func TestRepro_F01_EmptyBatchTimestampRegression(t *testing.T) {
	e := newReproEnv(t, 1)
	st := storepkg.New(e.kv)
	t0 := time.Now()
	seq := &scriptedSeq{script: []*coresequencer.GetNextBatchResponse{
		batchResp(t0, "a=1"),                  // height 2
		batchResp(t0.Add(-time.Minute)),       // height 3: empty, earlier than height 2
		batchResp(t0.Add(time.Minute), "b=2"), // well-formed again
		batchResp(t0.Add(2*time.Minute), "c=3"),
	}}
	exec := coreexecutor.NewDummyExecutor()
	m := e.manager(t, st, e.sgn, exec, seq, nil, 0)
	ctx := context.Background()

	// height 1 is the placeholder block saved at genesis (re-used as "pending block"; no batch is taken)
	require.NoError(t, m.publishBlock(ctx))
	require.NoError(t, m.publishBlock(ctx)) // height 2 from the first scripted batch
	h, _ := st.Height(ctx)
	require.Equal(t, uint64(2), h)

	err := m.publishBlock(ctx)
	require.Error(t, err)
	t.Logf("step with regressing empty batch: %v", err)

	for i := 0; i < 3; i++ {
		err = m.publishBlock(ctx)
		require.Error(t, err, "well-formed responses do not help: the poisoned block at height 2 is re-used")
	}
	t.Logf("later steps (sequencer well-formed again): %v", err)

	// a restart does not help either
	m2 := e.manager(t, storepkg.New(e.kv), e.sgn, exec, seq, nil, 0)
	err = m2.publishBlock(ctx)
	require.Error(t, err)
	h, _ = st.Height(ctx)
	require.Equal(t, uint64(2), h)
	t.Logf("after restart: %v (height stuck at %d)", err, h)
}

// F05: crash between SetHeight and UpdateState while producing height 2.
func TestRepro_F05_CrashBetweenHeightAndState(t *testing.T) {
	e := newReproEnv(t, 1)
	t0 := time.Now()
	seq := &scriptedSeq{script: []*coresequencer.GetNextBatchResponse{
		batchResp(t0, "a=1"), batchResp(t0.Add(time.Second), "b=2"),
		batchResp(t0.Add(2*time.Second), "c=3"), batchResp(t0.Add(3*time.Second), "d=4"),
	}}
	exec := coreexecutor.NewDummyExecutor()
	cs := &crashStore{Store: storepkg.New(e.kv), crashAt: "UpdateState#2"}
	m := e.manager(t, cs, e.sgn, exec, seq, nil, 0)
	ctx := context.Background()
	require.NoError(t, m.publishBlock(ctx))
	err := m.publishBlock(ctx)
	require.ErrorIs(t, err, errCrash)
	t.Logf("durable writes before the crash: %v", cs.log)

	// restart on the persisted image
	st := storepkg.New(e.kv)
	m2 := e.manager(t, st, e.sgn, exec, seq, nil, 0)
	h, _ := st.Height(ctx)
	s, _ := st.GetState(ctx)
	t.Logf("after restart: store height=%d state height=%d", h, s.LastBlockHeight)
	require.Equal(t, uint64(2), h)
	require.Equal(t, uint64(1), s.LastBlockHeight)
	for i := 0; i < 3; i++ {
		err = m2.publishBlock(ctx)
		require.Error(t, err)
	}
	t.Logf("every later production step fails: %v", err)
}

// F07: crash between UpdateState and SaveBlockData while a full node applies height 1.
func TestRepro_F07_SyncCrashBetweenStateAndBlock(t *testing.T) {
	// producer makes two blocks
	p := newReproEnv(t, 1)
	t0 := time.Now()
	seq := &scriptedSeq{script: []*coresequencer.GetNextBatchResponse{batchResp(t0, "a=1"), batchResp(t0.Add(time.Second), "b=2"), batchResp(t0.Add(2*time.Second), "c=3")}}
	pst := storepkg.New(p.kv)
	pm := p.manager(t, pst, p.sgn, coreexecutor.NewDummyExecutor(), seq, nil, 0)
	ctx := context.Background()
	require.NoError(t, pm.publishBlock(ctx))
	require.NoError(t, pm.publishBlock(ctx))
	h1, d1, err := pst.GetBlockData(ctx, 1)
	require.NoError(t, err)
	h2, d2, err := pst.GetBlockData(ctx, 2)
	require.NoError(t, err)

	// full node with its own database, same genesis
	f := &reproEnv{kv: dssync.MutexWrap(ds.NewMapDatastore()), gen: p.gen, rootDir: t.TempDir()}
	fexec := coreexecutor.NewDummyExecutor()
	cs := &crashStore{Store: storepkg.New(f.kv), crashAt: "SaveBlockData#3"} // #1 genesis placeholder, #2 height 1
	fm := f.manager(t, cs, nil, fexec, coresequencer.NewDummySequencer(), nil, 0)
	fm.headerCache.SetItem(1, h1)
	fm.dataCache.SetItem(1, d1)
	fm.headerCache.SetItem(2, h2)
	fm.dataCache.SetItem(2, d2)
	err = fm.trySyncNextBlock(ctx, 0)
	require.ErrorIs(t, err, errCrash)
	t.Logf("durable writes before the crash: %v", cs.log)

	// restart
	fst := storepkg.New(f.kv)
	fm2 := f.manager(t, fst, nil, fexec, coresequencer.NewDummySequencer(), nil, 0)
	h, _ := fst.Height(ctx)
	_, _, gerr := fst.GetBlockData(ctx, 2)
	t.Logf("after restart: chain height=%d, GetBlockData(2) -> %v", h, gerr)
	require.Equal(t, uint64(2), h)
	require.Error(t, gerr, "height 2 is not above the recorded chain height but has no block")

	// syncing goes on with height 3 and never fills the hole
	require.NoError(t, pm.publishBlock(ctx))
	h3, d3, err := pst.GetBlockData(ctx, 3)
	require.NoError(t, err)
	fm2.headerCache.SetItem(3, h3)
	fm2.dataCache.SetItem(3, d3)
	require.NoError(t, fm2.trySyncNextBlock(ctx, 0))
	h, _ = fst.Height(ctx)
	_, _, gerr = fst.GetBlockData(ctx, 2)
	require.Equal(t, uint64(3), h)
	require.Error(t, gerr)
	ok, ierr := fm2.IsDAIncluded(ctx, 2)
	t.Logf("height=%d, block 2 still missing (%v); IsDAIncluded(2) = %v, %v", h, gerr, ok, ierr)
}

// F09: idle chain, limit 3, DA accepts everything: production stops for good.
func TestRepro_F09_PendingLimitDeadlockOnIdleChain(t *testing.T) {
	e := newReproEnv(t, 1)
	st := storepkg.New(e.kv)
	da := coreda.NewDummyDA(1_000_000, 0, 0, time.Second)
	m := e.manager(t, st, e.sgn, coreexecutor.NewDummyExecutor(), coresequencer.NewDummySequencer(), da, 3)
	ctx := context.Background()

	drain := func() {
		hs, err := m.pendingHeaders.getPendingHeaders(ctx)
		require.NoError(t, err)
		if len(hs) > 0 {
			require.NoError(t, m.submitHeadersToDA(ctx, hs))
		}
		sd, err := m.createSignedDataToSubmit(ctx)
		require.NoError(t, err)
		if len(sd) > 0 {
			require.NoError(t, m.submitDataToDA(ctx, sd))
		}
	}
	for i := 0; i < 10; i++ {
		require.NoError(t, m.publishBlock(ctx)) // a refusal is not an error
		drain()
	}
	h, _ := st.Height(ctx)
	t.Logf("after 10 steps with a DA layer that accepts everything: height=%d pendingHeaders=%d pendingData=%d",
		h, m.pendingHeaders.numPendingHeaders(), m.pendingData.numPendingData())
	require.Equal(t, uint64(3), h)
	require.Equal(t, uint64(0), m.pendingHeaders.numPendingHeaders())
	require.Equal(t, uint64(3), m.pendingData.numPendingData())
}

// F02/F03/F04: forgeries under the proposer's address, and an unsigned header.
func TestRepro_F02_F03_F04_Forgeries(t *testing.T) {
	e := newReproEnv(t, 1)
	m := e.manager(t, storepkg.New(e.kv), nil, coreexecutor.NewDummyExecutor(), coresequencer.NewDummySequencer(), nil, 0)

	attacker, attackerPub, err := crypto.GenerateKeyPair(crypto.Ed25519, 256)
	require.NoError(t, err)
	require.False(t, attackerPub.Equals(e.priv.GetPublic()))

	// F02: header naming the proposer's address, signed with the attacker's key
	h := &types.SignedHeader{
		Header: types.Header{
			BaseHeader:      types.BaseHeader{ChainID: "repro", Height: 1, Time: uint64(time.Now().UnixNano())},
			DataHash:        dataHashForEmptyTxs,
			ProposerAddress: e.gen.ProposerAddress,
		},
		Signer: types.Signer{PubKey: attackerPub, Address: e.gen.ProposerAddress},
	}
	payload, err := h.Header.MarshalBinary()
	require.NoError(t, err)
	h.Signature, err = attacker.Sign(payload)
	require.NoError(t, err)
	// through the wire, as a DA blob would arrive
	bz, err := h.MarshalBinary()
	require.NoError(t, err)
	var got types.SignedHeader
	require.NoError(t, got.UnmarshalBinary(bz))
	require.NoError(t, got.ValidateBasic())
	require.True(t, m.isUsingExpectedSingleSequencer(&got), "forged header is admitted")
	require.True(t, m.handlePotentialHeader(context.Background(), bz, 7))
	require.True(t, m.headerCache.IsDAIncluded(got.Hash().String()), "and marked DA-included")
	require.Len(t, m.headerInCh, 1, "and handed to sync")
	t.Log("F02: forged header under the proposer's address admitted, marked DA-included and queued for sync")

	// F03: signed data forged the same way
	sd := &types.SignedData{
		Data:   types.Data{Metadata: &types.Metadata{ChainID: "repro", Height: 1}, Txs: types.Txs{types.Tx("evil=1")}},
		Signer: types.Signer{PubKey: attackerPub, Address: e.gen.ProposerAddress},
	}
	dbz, err := sd.Data.MarshalBinary()
	require.NoError(t, err)
	sd.Signature, err = attacker.Sign(dbz)
	require.NoError(t, err)
	require.True(t, m.isValidSignedData(sd), "forged signed data is admitted")
	t.Log("F03: forged signed data under the proposer's address admitted")

	// F04: what go-header calls on a received header
	unsigned := &types.SignedHeader{Header: types.Header{
		BaseHeader:      types.BaseHeader{ChainID: "repro", Height: 2},
		ProposerAddress: e.gen.ProposerAddress,
	}}
	require.Error(t, unsigned.ValidateBasic())
	require.NoError(t, unsigned.Validate(), "Validate() is promoted from Header and ignores the signature")
	t.Log("F04: an unsigned header passes Validate(), the only check go-header applies on receipt")

	// F10: signed data without metadata reaches a nil dereference in the scan goroutine
	sd2 := &types.SignedData{Data: types.Data{Txs: types.Txs{types.Tx("x=1")}}, Signer: sd.Signer}
	dbz, _ = sd2.Data.MarshalBinary()
	sd2.Signature, _ = attacker.Sign(dbz)
	blob, err := sd2.MarshalBinary()
	require.NoError(t, err)
	func() {
		defer func() {
			r := recover()
			require.NotNil(t, r, "handlePotentialData panics")
			t.Logf("F10: handlePotentialData panicked: %v", r)
		}()
		m.handlePotentialData(context.Background(), blob, 9)
	}()
}

// F08: initial height 5 - nothing is ever submitted, nothing ever final.
func TestRepro_F08_InitialHeightAboveOne(t *testing.T) {
	e := newReproEnv(t, 5)
	st := storepkg.New(e.kv)
	t0 := time.Now()
	seq := &scriptedSeq{script: []*coresequencer.GetNextBatchResponse{batchResp(t0, "a=1"), batchResp(t0.Add(time.Second), "b=2")}}
	m := e.manager(t, st, e.sgn, coreexecutor.NewDummyExecutor(), seq, coreda.NewDummyDA(1_000_000, 0, 0, time.Second), 0)
	ctx := context.Background()
	require.NoError(t, m.publishBlock(ctx))
	require.NoError(t, m.publishBlock(ctx))
	h, _ := st.Height(ctx)
	hs, err := m.pendingHeaders.getPendingHeaders(ctx)
	t.Logf("height=%d numPendingHeaders=%d getPendingHeaders -> %d items, err=%v", h, m.pendingHeaders.numPendingHeaders(), len(hs), err)
	require.Equal(t, uint64(6), h)
	require.Error(t, err)
	require.Empty(t, hs)
	ok, ierr := m.IsDAIncluded(ctx, m.GetDAIncludedHeight()+1)
	t.Logf("IsDAIncluded(%d) = %v, %v", m.GetDAIncludedHeight()+1, ok, ierr)
	require.Error(t, ierr)
}

func (e *reproEnv) sgnOrNoop(t *testing.T) signer.Signer {
	if e.sgn != nil {
		return e.sgn
	}
	priv, _, err := crypto.GenerateKeyPair(crypto.Ed25519, 256)
	require.NoError(t, err)
	s, err := noopsigner.NewNoopSigner(priv)
	require.NoError(t, err)
	return s
}
