package sync

import (
	"context"
	"path/filepath"
	"testing"
	"time"

	"github.com/ipfs/go-datastore"
	dssync "github.com/ipfs/go-datastore/sync"
	logging "github.com/ipfs/go-log/v2"
	mocknet "github.com/libp2p/go-libp2p/p2p/net/mock"
	"github.com/stretchr/testify/require"

	"github.com/evstack/ev-node/pkg/config"
	genesispkg "github.com/evstack/ev-node/pkg/genesis"
	"github.com/evstack/ev-node/pkg/p2p"
	"github.com/evstack/ev-node/pkg/p2p/key"
	"github.com/evstack/ev-node/types"
)


func reproC04Data(chainID string, height uint64, prev *types.Data) *types.Data {
	d := &types.Data{
		Metadata: &types.Metadata{ChainID: chainID, Height: height, Time: uint64(time.Now().UnixNano())},
		Txs:      types.Txs{types.Tx([]byte{byte(height)})},
	}
	if prev != nil {
		d.Metadata.LastDataHash = prev.Hash()
	}
	return d
}

// A sequencer that dies after block 4 was committed (SetHeight) and before its data was
// published over P2P must be able to publish the data of blocks 5, 6 after the restart:
// publishBlockInternal returns the error of WriteToStoreAndBroadcast and the node halts.
func TestReproC04R8_SequencerPublishesDataAfterCrashBeforeBroadcast(t *testing.T) {
	mainKV := dssync.MutexWrap(datastore.NewMapDatastore())
	mn := mocknet.New()
	genesisDoc := genesispkg.Genesis{ChainID: "repro-c04", GenesisDAStartTime: time.Now(), InitialHeight: 1, ProposerAddress: []byte("test")}
	conf := config.DefaultConfig
	conf.Node.Aggregator = true
	conf.RootDir = t.TempDir()
	nodeKey, err := key.LoadOrGenNodeKey(filepath.Dir(conf.ConfigPath()))
	require.NoError(t, err)
	logger := logging.Logger("repro-c04")
	type process struct {
		ctx    context.Context
		cancel context.CancelFunc
		client *p2p.Client
		svc    *DataSyncService
	}
	startProcess := func() *process {
		h, err := mn.AddPeer(nodeKey.PrivKey, nil)
		require.NoError(t, err)
		client, err := p2p.NewClientWithHost(conf, nodeKey, mainKV, logger, p2p.NopMetrics(), h)
		require.NoError(t, err)
		ctx, cancel := context.WithCancel(t.Context())
		require.NoError(t, client.Start(ctx))
		svc, err := NewDataSyncService(mainKV, conf, genesisDoc, client, logger)
		require.NoError(t, err)
		require.NoError(t, svc.Start(ctx))
		return &process{ctx: ctx, cancel: cancel, client: client, svc: svc}
	}
	stopProcess := func(p *process) {
		_ = p.svc.Stop(p.ctx)
		_ = p.client.Close()
		p.cancel()
	}
	p := startProcess()
	var d *types.Data
	for h := uint64(1); h <= 3; h++ {
		d = reproC04Data(genesisDoc.ChainID, h, d)
		require.NoError(t, p.svc.WriteToStoreAndBroadcast(p.ctx, d), "publishing data %d", h)
	}
	require.Eventually(t, func() bool { return p.svc.Store().Height() == 3 }, 2*time.Second, 10*time.Millisecond)
	d = reproC04Data(genesisDoc.ChainID, 4, d) // committed, never published
	stopProcess(p)
	p = startProcess()
	defer stopProcess(p)
	for h := uint64(5); h <= 6; h++ {
		d = reproC04Data(genesisDoc.ChainID, h, d)
		require.NoError(t, p.svc.WriteToStoreAndBroadcast(p.ctx, d), "restarted sequencer cannot publish data %d", h)
	}
}
