package jsonrpc_test

import (
	"context"
	"errors"
	"testing"

	logging "github.com/ipfs/go-log/v2"
	"github.com/stretchr/testify/require"

	coreda "github.com/evstack/ev-node/core/da"
	proxy "github.com/evstack/ev-node/da/jsonrpc"
)

type failDA struct {
	coreda.DA
	err error
}

func (f *failDA) SubmitWithOptions(context.Context, []coreda.Blob, float64, []byte, []byte) ([]coreda.ID, error) {
	return nil, f.err
}

// F18 (wire side): the identity of coreda sentinels does not survive the real proxy.
func TestRepro_F18_IdentityLostOverTheWire(t *testing.T) {
	logger := logging.Logger("test")
	backing := &failDA{DA: coreda.NewDummyDA(100_000, 0, 0, getTestDABlockTime())}
	server := proxy.NewServer(logger, ServerHost, "3461", backing)
	require.NoError(t, server.Start(context.Background()))
	defer server.Stop(context.Background()) //nolint:errcheck
	client, err := proxy.NewClient(context.Background(), logger, "http://localhost:3461", "", "74657374")
	require.NoError(t, err)
	defer client.Close()

	for _, sentinel := range []error{coreda.ErrTxTimedOut, coreda.ErrTxAlreadyInMempool, coreda.ErrBlobSizeOverLimit, coreda.ErrTxIncorrectAccountSequence, coreda.ErrContextDeadline} {
		backing.err = sentinel
		_, derr := backing.SubmitWithOptions(context.Background(), []coreda.Blob{{1}}, 1, nil, nil)
		_, perr := client.DA.SubmitWithOptions(context.Background(), []coreda.Blob{{1}}, 1, nil, nil)
		t.Logf("%-55q direct errors.Is=%v  proxied errors.Is=%v  proxied=%T %q", sentinel.Error(), errors.Is(derr, sentinel), errors.Is(perr, sentinel), perr, perr)
		require.True(t, errors.Is(derr, sentinel))
		require.Error(t, perr)
		require.False(t, errors.Is(perr, sentinel))
	}
}
