package single

import (
	"context"
	"testing"

	ds "github.com/ipfs/go-datastore"
	dssync "github.com/ipfs/go-datastore/sync"
	"github.com/stretchr/testify/require"

	coresequencer "github.com/evstack/ev-node/core/sequencer"
)

func b(txs ...string) coresequencer.Batch {
	var out coresequencer.Batch
	for _, t := range txs {
		out.Transactions = append(out.Transactions, []byte(t))
	}
	return out
}

// F11a: two accepted batches with equal contents share one WAL entry; after one is
// handed out and the node restarts, the other is gone.
func TestRepro_F11_DuplicateBatchLostAcrossRestart(t *testing.T) {
	ctx := context.Background()
	db := dssync.MutexWrap(ds.NewMapDatastore())
	q := NewBatchQueue(db, "batches", 0)
	require.NoError(t, q.AddBatch(ctx, b("pay=1")))
	require.NoError(t, q.AddBatch(ctx, b("pay=1"))) // accepted a second time
	first, err := q.Next(ctx)
	require.NoError(t, err)
	require.Len(t, first.Transactions, 1)

	q2 := NewBatchQueue(db, "batches", 0) // restart
	require.NoError(t, q2.Load(ctx))
	second, err := q2.Next(ctx)
	require.NoError(t, err)
	t.Logf("accepted 2, handed out 1, restart, next -> %d txs", len(second.Transactions))
	require.Empty(t, second.Transactions, "the second accepted batch was lost")
}

// F11b: reload order is key (hash) order, not acceptance order.
func TestRepro_F11_ReloadOrderIsHashOrder(t *testing.T) {
	ctx := context.Background()
	reordered := false
	for i := 0; i < 20 && !reordered; i++ {
		db := dssync.MutexWrap(ds.NewMapDatastore())
		q := NewBatchQueue(db, "batches", 0)
		var accepted []string
		for j := 0; j < 6; j++ {
			tx := string(rune('a'+j)) + "=" + string(rune('0'+i%10))
			accepted = append(accepted, tx)
			require.NoError(t, q.AddBatch(ctx, b(tx)))
		}
		q2 := NewBatchQueue(db, "batches", 0)
		require.NoError(t, q2.Load(ctx))
		var got []string
		for range accepted {
			n, err := q2.Next(ctx)
			require.NoError(t, err)
			got = append(got, string(n.Transactions[0]))
		}
		if len(got) == len(accepted) {
			for k := range got {
				if got[k] != accepted[k] {
					reordered = true
					t.Logf("accepted %v\nreloaded %v", accepted, got)
					break
				}
			}
		}
	}
	require.True(t, reordered)
}

// F13: the batch is deleted durably when it is handed out; a node that dies before
// saving the block has lost it.
func TestRepro_F13_BatchGoneBeforeBlockIsSaved(t *testing.T) {
	ctx := context.Background()
	db := dssync.MutexWrap(ds.NewMapDatastore())
	q := NewBatchQueue(db, "batches", 0)
	require.NoError(t, q.AddBatch(ctx, b("only=1")))
	_, err := q.Next(ctx) // block manager took the batch ... and crashes before SaveBlockData
	require.NoError(t, err)
	q2 := NewBatchQueue(db, "batches", 0)
	require.NoError(t, q2.Load(ctx))
	n, err := q2.Next(ctx)
	require.NoError(t, err)
	require.Empty(t, n.Transactions)
	t.Log("after the restart the sequencer has nothing to hand out: the transactions are in no block and in no queue")
}
