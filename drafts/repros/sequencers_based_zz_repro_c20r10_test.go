package based_test

import (
	"context"
	"encoding/binary"
	"fmt"
	"testing"
	"time"

	ds "github.com/ipfs/go-datastore"
	logging "github.com/ipfs/go-log/v2"
	"github.com/stretchr/testify/require"

	coreda "github.com/evstack/ev-node/core/da"
	coresequencer "github.com/evstack/ev-node/core/sequencer"
	"github.com/evstack/ev-node/sequencers/based"
)

// reproC20r10DA is a deterministic in-memory DA layer: a fixed set of heights,
// each with an ordered list of blobs. Heights above `head` are "from the future".
type reproC20r10DA struct {
	head    uint64
	heights map[uint64][][]byte
	byID    map[string][]byte
}

func newSeedC20hDA(head uint64) *reproC20r10DA {
	return &reproC20r10DA{head: head, heights: map[uint64][][]byte{}, byID: map[string][]byte{}}
}

func reproC20r10ID(height uint64, pos int) []byte {
	id := make([]byte, 8, 16)
	binary.LittleEndian.PutUint64(id, height)
	return append(id, []byte(fmt.Sprintf("c%05d", pos))...)
}

func (d *reproC20r10DA) put(height uint64, txs ...[]byte) {
	for _, tx := range txs {
		pos := len(d.heights[height])
		d.heights[height] = append(d.heights[height], tx)
		d.byID[string(reproC20r10ID(height, pos))] = tx
	}
}

func (d *reproC20r10DA) Get(ctx context.Context, ids []coreda.ID, namespace []byte) ([]coreda.Blob, error) {
	out := make([]coreda.Blob, 0, len(ids))
	for _, id := range ids {
		b, ok := d.byID[string(id)]
		if !ok {
			return nil, coreda.ErrBlobNotFound
		}
		out = append(out, b)
	}
	return out, nil
}

func (d *reproC20r10DA) GetIDs(ctx context.Context, height uint64, namespace []byte) (*coreda.GetIDsResult, error) {
	if height > d.head {
		return nil, coreda.ErrHeightFromFuture
	}
	txs := d.heights[height]
	if len(txs) == 0 {
		return nil, coreda.ErrBlobNotFound
	}
	ids := make([]coreda.ID, len(txs))
	for i := range txs {
		ids[i] = reproC20r10ID(height, i)
	}
	return &coreda.GetIDsResult{IDs: ids, Timestamp: time.Unix(int64(1_700_000_000+height), 0)}, nil
}

func (d *reproC20r10DA) GetProofs(ctx context.Context, ids []coreda.ID, namespace []byte) ([]coreda.Proof, error) {
	return make([]coreda.Proof, len(ids)), nil
}

func (d *reproC20r10DA) Commit(ctx context.Context, blobs []coreda.Blob, namespace []byte) ([]coreda.Commitment, error) {
	return make([]coreda.Commitment, len(blobs)), nil
}

func (d *reproC20r10DA) Submit(ctx context.Context, blobs []coreda.Blob, gasPrice float64, namespace []byte) ([]coreda.ID, error) {
	return nil, fmt.Errorf("not supported")
}

func (d *reproC20r10DA) SubmitWithOptions(ctx context.Context, blobs []coreda.Blob, gasPrice float64, namespace []byte, options []byte) ([]coreda.ID, error) {
	return nil, fmt.Errorf("not supported")
}

func (d *reproC20r10DA) Validate(ctx context.Context, ids []coreda.ID, proofs []coreda.Proof, namespace []byte) ([]bool, error) {
	return make([]bool, len(ids)), nil
}

func (d *reproC20r10DA) GasPrice(ctx context.Context) (float64, error)      { return 1, nil }
func (d *reproC20r10DA) GasMultiplier(ctx context.Context) (float64, error) { return 1, nil }

// drain calls GetNextBatch until two consecutive calls return nothing, and
// returns every released transaction in release order.
func reproC20r10Drain(t *testing.T, seq *based.Sequencer, maxBytes uint64) [][]byte {
	t.Helper()
	var (
		released [][]byte
		last     [][]byte
		idle     int
	)
	for calls := 0; calls < 1000 && idle < 2; calls++ {
		resp, err := seq.GetNextBatch(context.Background(), coresequencer.GetNextBatchRequest{
			Id:            []byte("test1"),
			MaxBytes:      maxBytes,
			LastBatchData: last,
		})
		require.NoError(t, err)
		if resp == nil || resp.Batch == nil || len(resp.Batch.Transactions) == 0 {
			idle++
			continue
		}
		idle = 0
		var size uint64
		for _, tx := range resp.Batch.Transactions {
			size += uint64(len(tx))
		}
		require.LessOrEqual(t, size, maxBytes, "batch larger than requested")
		released = append(released, resp.Batch.Transactions...)
		last = resp.BatchData
	}
	return released
}

// A transaction that does not fit into the current batch closes the batch: it
// must be the first transaction of the next batch, and nothing from a later DA
// height may be released ahead of it.
func TestReproC20R10_NothingOvertakesTheCarryOverHead(t *testing.T) {
	logger := logging.Logger("test")
	_ = logging.SetLogLevel("test", "FATAL")

	mk := func(tag string, n int) []byte {
		tx := make([]byte, n)
		copy(tx, tag)
		for i := len(tag); i < n; i++ {
			tx[i] = '.'
		}
		return tx
	}

	for _, tc := range []struct {
		name     string
		heights  [][][]byte // txs at DA heights 1, 2, 3, ...
		maxBytes uint64
	}{
		{
			// height 1 leaves [a b] queued; the next call pops a, b does not fit,
			// and the scan must not release c (height 2) ahead of b
			name:     "two queued, second does not fit, small tx at the next height",
			heights:  [][][]byte{{mk("x", 50), mk("a", 60), mk("b", 60)}, {mk("c", 10)}},
			maxBytes: 100,
		},
	} {
		t.Run(tc.name, func(t *testing.T) {
			da := newSeedC20hDA(uint64(len(tc.heights)))
			var want [][]byte
			for h, txs := range tc.heights {
				da.put(uint64(h+1), txs...)
				want = append(want, txs...)
			}

			seq, err := based.NewSequencer(logger, da, []byte("test1"), 1, 2, ds.NewMapDatastore())
			require.NoError(t, err)

			got := reproC20r10Drain(t, seq, tc.maxBytes)

			gotS := make([]string, len(got))
			for i := range got {
				gotS[i] = string(got[i])
			}
			wantS := make([]string, len(want))
			for i := range want {
				wantS[i] = string(want[i])
			}
			require.Equal(t, wantS, gotS, "transactions must be released in DA order, each exactly once")
		})
	}
}
