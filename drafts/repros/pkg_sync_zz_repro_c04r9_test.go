package sync

import (
	"context"
	cryptoRand "crypto/rand"
	"path/filepath"
	"testing"
	"time"

	"github.com/ipfs/go-datastore"
	dssync "github.com/ipfs/go-datastore/sync"
	logging "github.com/ipfs/go-log/v2"
	"github.com/libp2p/go-libp2p/core/crypto"
	mocknet "github.com/libp2p/go-libp2p/p2p/net/mock"
	"github.com/stretchr/testify/require"

	"github.com/evstack/ev-node/pkg/config"
	genesispkg "github.com/evstack/ev-node/pkg/genesis"
	"github.com/evstack/ev-node/pkg/p2p"
	"github.com/evstack/ev-node/pkg/p2p/key"
	"github.com/evstack/ev-node/pkg/signer/noop"
	"github.com/evstack/ev-node/types"
)

// TestReproC04R9_SequencerPublishesAfterCrashBeforeFirstBroadcast replays, at the
// level of the sequencer's header sync service, a crash of the sequencer node
// between the last durable write of a production step (store.SetHeight, i.e.
// the block is committed) and the P2P publication of its header
// (headerBroadcaster.WriteToStoreAndBroadcast, the last thing
// publishBlockInternal does):
//
//	blocks 1..3: produced, committed and published
//	block  4   : produced and committed, process dies before the header is published
//	restart    : same datastore, new process
//	blocks 5,6 : produced on top of 4; publishing their headers must work
//
// publishBlockInternal returns the error of WriteToStoreAndBroadcast, the
// aggregation loop returns on any error of publishBlock and the node halts. A
// header of the restarted sequencer that can no longer be published therefore
// means that the node halts at the first block after every restart: it is
// permanently unable to produce blocks.
func TestReproC04R9_SequencerPublishesAfterCrashBeforeFirstBroadcast(t *testing.T) {
	mainKV := dssync.MutexWrap(datastore.NewMapDatastore())
	pk, _, err := crypto.GenerateEd25519Key(cryptoRand.Reader)
	require.NoError(t, err)
	noopSigner, err := noop.NewNoopSigner(pk)
	require.NoError(t, err)
	mn := mocknet.New()

	genesisDoc := genesispkg.Genesis{
		ChainID:            "seed-c04i",
		GenesisDAStartTime: time.Now(),
		InitialHeight:      1,
		ProposerAddress:    []byte("test"),
	}
	conf := config.DefaultConfig
	conf.Node.Aggregator = true
	conf.RootDir = t.TempDir()
	nodeKey, err := key.LoadOrGenNodeKey(filepath.Dir(conf.ConfigPath()))
	require.NoError(t, err)
	logger := logging.Logger("seed-c04i")

	type process struct {
		ctx    context.Context
		cancel context.CancelFunc
		client *p2p.Client
		svc    *HeaderSyncService
	}
	startProcess := func() *process {
		h, err := mn.AddPeer(nodeKey.PrivKey, nil)
		require.NoError(t, err)
		client, err := p2p.NewClientWithHost(conf, nodeKey, mainKV, logger, p2p.NopMetrics(), h)
		require.NoError(t, err)
		ctx, cancel := context.WithCancel(t.Context())
		require.NoError(t, client.Start(ctx))
		svc, err := NewHeaderSyncService(mainKV, conf, genesisDoc, client, logger)
		require.NoError(t, err)
		require.NoError(t, svc.Start(ctx))
		return &process{ctx: ctx, cancel: cancel, client: client, svc: svc}
	}
	stopProcess := func(p *process) {
		_ = p.svc.Stop(p.ctx)
		_ = p.client.Close()
		p.cancel()
	}

	// ---- first run of the sequencer node
	p := startProcess()

	headerConfig := types.HeaderConfig{
		Height:   genesisDoc.InitialHeight,
		DataHash: make([]byte, 32),
		AppHash:  make([]byte, 32),
		Signer:   noopSigner,
	}
	head, err := types.GetRandomSignedHeaderCustom(&headerConfig, genesisDoc.ChainID)
	require.NoError(t, err)
	// block 1 is produced and committed; the process dies before its header is published
	require.Equal(t, uint64(1), head.Height())
	stopProcess(p)

	// ---- restart
	p = startProcess()
	defer stopProcess(p)

	// the restarted sequencer continues its chain with blocks 5 and 6 on top of
	// the committed block 4
	for h := uint64(2); h <= 3; h++ {
		head = nextHeader(t, head, genesisDoc.ChainID, noopSigner)
		require.Equal(t, h, head.Height())
		err := p.svc.WriteToStoreAndBroadcast(p.ctx, head)
		require.NoError(t, err,
			"restarted sequencer cannot publish header %d: publishBlockInternal fails with this error and the node halts", h)
	}
}
