package zzrepro

// Reproductions (root module, outside package block) of findings predicted in
// /verif/DESIGN.md section 5. Triage aids, not checks: each test PASSES when the
// defect is present and logs what it observed.

import (
	"context"
	"encoding/json"
	"errors"
	"fmt"
	"os"
	"path/filepath"
	"testing"

	logging "github.com/ipfs/go-log/v2"
	"github.com/libp2p/go-libp2p/core/crypto"
	"github.com/spf13/cobra"
	"github.com/stretchr/testify/require"

	coreda "github.com/evstack/ev-node/core/da"
	"github.com/evstack/ev-node/pkg/cache"
	"github.com/evstack/ev-node/pkg/config"
	"github.com/evstack/ev-node/pkg/signer/file"
	"github.com/evstack/ev-node/types"
)

// F06: a cache file cut short (crash while saving) makes loading fail; NewManager
// treats that as fatal.
func TestRepro_F06_TornCacheFile(t *testing.T) {
	dir := t.TempDir()
	c := cache.NewCache[types.Data]()
	c.SetItem(7, &types.Data{Txs: types.Txs{types.Tx("a")}})
	c.SetDAIncluded("h", 3)
	require.NoError(t, c.SaveToDisk(dir))
	p := filepath.Join(dir, "da_included.gob")
	b, err := os.ReadFile(p)
	require.NoError(t, err)
	require.NoError(t, os.WriteFile(p, b[:len(b)/2], 0o600)) // what a crash in the middle of the in-place write leaves
	err = cache.NewCache[types.Data]().LoadFromDisk(dir)
	require.Error(t, err)
	t.Logf("LoadFromDisk on a torn file: %v", err)
	require.NoError(t, os.WriteFile(p, nil, 0o600)) // os.Create done, nothing written yet
	err = cache.NewCache[types.Data]().LoadFromDisk(dir)
	require.Error(t, err)
	t.Logf("LoadFromDisk on a just-created (empty) file: %v", err)
}

// F19: --rollkit.signer.path / --rollkit.signer.type are registered but ignored.
func TestRepro_F19_SignerFlagsIgnored(t *testing.T) {
	cmd := &cobra.Command{Use: "x"}
	config.AddFlags(cmd)
	config.AddGlobalFlags(cmd, "x")
	home := t.TempDir()
	require.NoError(t, cmd.ParseFlags([]string{
		"--home", home,
		"--" + config.FlagSignerPath, "/my/keys",
		"--" + config.FlagSignerType, "grpc",
		"--" + config.FlagDAAddress, "http://da:1",
	}))
	cfg, err := config.Load(cmd)
	require.NoError(t, err)
	t.Logf("flags: signer path=/my/keys type=grpc da=http://da:1 -> loaded: path=%q type=%q da=%q", cfg.Signer.SignerPath, cfg.Signer.SignerType, cfg.DA.Address)
	require.Equal(t, "http://da:1", cfg.DA.Address, "control: another flag does arrive")
	require.Equal(t, config.DefaultConfig.Signer.SignerPath, cfg.Signer.SignerPath, "the flag value was dropped")
	require.Equal(t, config.DefaultConfig.Signer.SignerType, cfg.Signer.SignerType, "the flag value was dropped")
}

type keyFile struct {
	PrivKeyEncrypted []byte `json:"priv_key_encrypted"`
	Nonce            []byte `json:"nonce"`
	PubKeyBytes      []byte `json:"pub_key"`
	Salt             []byte `json:"salt,omitempty"`
}

// F20: a flipped byte in the clear-text public key yields a signer whose signatures
// do not verify under the key it reports.
func TestRepro_F20_StoredPublicKeyNotBound(t *testing.T) {
	dir := t.TempDir()
	_, err := file.CreateFileSystemSigner(dir, []byte("pw"))
	require.NoError(t, err)
	p := filepath.Join(dir, "signer.json")
	raw, err := os.ReadFile(p)
	require.NoError(t, err)
	var kf keyFile
	require.NoError(t, json.Unmarshal(raw, &kf))
	kf.PubKeyBytes[5] ^= 0x40
	raw, _ = json.Marshal(kf)
	require.NoError(t, os.WriteFile(p, raw, 0o600))

	s, err := file.LoadFileSystemSigner(dir, []byte("pw"))
	require.NoError(t, err, "the corrupted file loads")
	sig, err := s.Sign([]byte("msg"))
	require.NoError(t, err)
	pub, err := s.GetPublic()
	require.NoError(t, err)
	ok, verr := pub.Verify([]byte("msg"), sig)
	t.Logf("corrupted pub_key: Load ok; signature verifies under reported key: %v (err %v)", ok, verr)
	require.False(t, ok)
}

// F21: empty passphrase on a salt-less (legacy) file panics.
func TestRepro_F21_LegacyEmptyPassphrasePanics(t *testing.T) {
	dir := t.TempDir()
	_, err := file.CreateFileSystemSigner(dir, []byte("pw"))
	require.NoError(t, err)
	p := filepath.Join(dir, "signer.json")
	raw, err := os.ReadFile(p)
	require.NoError(t, err)
	var kf keyFile
	require.NoError(t, json.Unmarshal(raw, &kf))
	kf.Salt = nil // legacy format / truncated field
	raw, _ = json.Marshal(kf)
	require.NoError(t, os.WriteFile(p, raw, 0o600))
	defer func() {
		r := recover()
		require.NotNil(t, r)
		t.Logf("LoadFileSystemSigner(legacy file, empty passphrase) panicked: %v", r)
	}()
	_, _ = file.LoadFileSystemSigner(dir, []byte{})
}

// F18 (node side): an error that lost its identity (as after JSON-RPC) is classified
// differently from the same error in-process.
type failingDA struct {
	coreda.DA
	err error
}

func (f failingDA) SubmitWithOptions(context.Context, []coreda.Blob, float64, []byte, []byte) ([]coreda.ID, error) {
	return nil, f.err
}

func TestRepro_F18_ClassificationDependsOnIdentity(t *testing.T) {
	log := logging.Logger("repro")
	for _, sentinel := range []error{coreda.ErrTxTimedOut, coreda.ErrTxAlreadyInMempool, coreda.ErrBlobSizeOverLimit} {
		direct := types.SubmitWithHelpers(context.Background(), failingDA{err: sentinel}, log, [][]byte{{1}}, 1, nil)
		// what the JSON-RPC client hands back: a fresh error carrying only the message
		wire := types.SubmitWithHelpers(context.Background(), failingDA{err: errors.New(sentinel.Error())}, log, [][]byte{{1}}, 1, nil)
		t.Logf("%-55q direct=%d proxied=%d", sentinel.Error(), direct.Code, wire.Code)
		require.NotEqual(t, direct.Code, wire.Code)
		require.Equal(t, coreda.StatusError, wire.Code)
	}
}

// F24: a signed header with a nil public key loses its signer address on the wire.
func TestRepro_F24_SignerAddressDropped(t *testing.T) {
	_, pub, _ := crypto.GenerateKeyPair(crypto.Ed25519, 256)
	_ = pub
	h := &types.SignedHeader{Header: types.Header{ProposerAddress: []byte("p")}, Signer: types.Signer{Address: []byte("proposer")}}
	bz, err := h.MarshalBinary()
	require.NoError(t, err)
	var got types.SignedHeader
	require.NoError(t, got.UnmarshalBinary(bz))
	t.Logf("address before=%q after=%q", h.Signer.Address, got.Signer.Address)
	require.NotEqual(t, fmt.Sprint(h.Signer.Address), fmt.Sprint(got.Signer.Address))
}
