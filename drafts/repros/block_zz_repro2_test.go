package block

import (
	"context"
	"testing"
	"time"

	"github.com/stretchr/testify/require"

	coreexecutor "github.com/evstack/ev-node/core/execution"
	coresequencer "github.com/evstack/ev-node/core/sequencer"
	storepkg "github.com/evstack/ev-node/pkg/store"
	"github.com/evstack/ev-node/types"
)

// F14: genesis time in the future - a stop request does not interrupt the start-up delay.
func TestRepro_F14_StartupSleepIgnoresStop(t *testing.T) {
	e := newReproEnv(t, 1)
	e.gen.GenesisDAStartTime = time.Now().Add(3 * time.Second)
	m := e.manager(t, storepkg.New(e.kv), e.sgn, coreexecutor.NewDummyExecutor(), coresequencer.NewDummySequencer(), nil, 0)
	ctx, cancel := context.WithCancel(context.Background())
	done := make(chan struct{})
	go func() { m.AggregationLoop(ctx, make(chan error, 1)); close(done) }()
	time.Sleep(100 * time.Millisecond)
	cancel()
	start := time.Now()
	select {
	case <-done:
		t.Fatalf("returned after %v - defect not present", time.Since(start))
	case <-time.After(1500 * time.Millisecond):
		t.Logf("1.5s after the stop request AggregationLoop has still not returned (it sleeps until genesis time + block time)")
	}
	<-done
	t.Logf("it returned %v after the stop request", time.Since(start).Round(100*time.Millisecond))
}

// F15: event channel full, consumer gone: the DA scan blocks on the send and never sees the stop request.
func TestRepro_F15_BlockedSendSurvivesStop(t *testing.T) {
	e := newReproEnv(t, 1)
	m := e.manager(t, storepkg.New(e.kv), nil, coreexecutor.NewDummyExecutor(), coresequencer.NewDummySequencer(), nil, 0)
	for len(m.headerInCh) < cap(m.headerInCh) {
		m.headerInCh <- NewHeaderEvent{}
	}
	// a genuine header arriving from DA
	p := newReproEnv(t, 1)
	p.gen = e.gen
	hdr, err := types.GetFirstSignedHeader(e.sgnOrNoop(t), "repro")
	require.NoError(t, err)
	m.genesis.ProposerAddress = hdr.ProposerAddress
	bz, err := hdr.MarshalBinary()
	require.NoError(t, err)

	ctx, cancel := context.WithCancel(context.Background())
	done := make(chan struct{})
	go func() { m.handlePotentialHeader(ctx, bz, 1); close(done) }()
	time.Sleep(100 * time.Millisecond)
	cancel() // SyncLoop has returned, nobody will ever receive
	select {
	case <-done:
		t.Fatal("returned - defect not present")
	case <-time.After(time.Second):
		t.Log("1s after the stop request the scan goroutine is still blocked on headerInCh <- ...; FullNode.Run would hang in wg.Wait()")
	}
	<-m.headerInCh // let the goroutine go
	<-done
}
