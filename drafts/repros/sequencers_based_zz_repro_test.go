package based

import (
	"context"
	"encoding/binary"
	"fmt"
	"testing"
	"time"

	ds "github.com/ipfs/go-datastore"
	dssync "github.com/ipfs/go-datastore/sync"
	logging "github.com/ipfs/go-log/v2"
	"github.com/stretchr/testify/require"

	coreda "github.com/evstack/ev-node/core/da"
	coresequencer "github.com/evstack/ev-node/core/sequencer"
)

// scriptedDA: blobs per height, and a tip above which heights are "from the future".
type scriptedDA struct {
	coreda.DA
	tip   uint64
	blobs map[uint64][][]byte
}

func id(h uint64, i int) []byte {
	b := make([]byte, 8, 12)
	binary.LittleEndian.PutUint64(b, h)
	return append(b, byte(i), 0, 0, 1)
}
func (d *scriptedDA) GetIDs(_ context.Context, h uint64, _ []byte) (*coreda.GetIDsResult, error) {
	if h > d.tip {
		return nil, fmt.Errorf("%w: requested %d, current %d", coreda.ErrHeightFromFuture, h, d.tip)
	}
	bl := d.blobs[h]
	if len(bl) == 0 {
		return nil, coreda.ErrBlobNotFound
	}
	res := &coreda.GetIDsResult{Timestamp: time.Unix(int64(h), 0)}
	for i := range bl {
		res.IDs = append(res.IDs, id(h, i))
	}
	return res, nil
}
func (d *scriptedDA) Get(_ context.Context, ids []coreda.ID, _ []byte) ([]coreda.Blob, error) {
	var out []coreda.Blob
	for _, x := range ids {
		h := binary.LittleEndian.Uint64(x[:8])
		out = append(out, d.blobs[h][int(x[8])])
	}
	return out, nil
}

func released(t *testing.T, s *Sequencer, last *[][]byte, maxBytes uint64) []string {
	resp, err := s.GetNextBatch(context.Background(), coresequencer.GetNextBatchRequest{Id: []byte("c"), LastBatchData: *last, MaxBytes: maxBytes})
	require.NoError(t, err)
	if resp == nil {
		return nil
	}
	*last = resp.BatchData
	var out []string
	for _, tx := range resp.Batch.Transactions {
		out = append(out, string(tx))
	}
	return out
}

// F22: heights that do not exist yet are scanned past; what is published there later is never released.
func TestRepro_F22_FutureHeightsSkipped(t *testing.T) {
	da := &scriptedDA{tip: 10, blobs: map[uint64][][]byte{10: {[]byte("t10")}}}
	db := dssync.MutexWrap(ds.NewMapDatastore())
	s, err := NewSequencer(logging.Logger("repro"), da, []byte("c"), 10, 5, db)
	require.NoError(t, err)
	var last [][]byte
	var all []string
	all = append(all, released(t, s, &last, 1000)...)
	raw, _ := db.Get(context.Background(), ds.NewKey(dsLastScannedHeightKey))
	t.Logf("DA tip is 10; after the first call released=%v, persisted scan position=%s", all, raw)

	// the DA layer moves on: heights 11..13 now exist and carry transactions
	da.tip = 20
	da.blobs[11] = [][]byte{[]byte("t11")}
	da.blobs[12] = [][]byte{[]byte("t12")}
	da.blobs[13] = [][]byte{[]byte("t13")}
	for i := 0; i < 5; i++ {
		all = append(all, released(t, s, &last, 1000)...)
	}
	t.Logf("released in total: %v", all)
	require.NotContains(t, all, "t11")
	require.NotContains(t, all, "t12")
	require.NotContains(t, all, "t13")
}

// F23: a height that did not fit completely is scanned again; its transactions are released twice.
func TestRepro_F23_PartialHeightReleasedTwice(t *testing.T) {
	da := &scriptedDA{tip: 10, blobs: map[uint64][][]byte{10: {[]byte("aaaa"), []byte("bbbb"), []byte("cccc")}}}
	db := dssync.MutexWrap(ds.NewMapDatastore())
	s, err := NewSequencer(logging.Logger("repro"), da, []byte("c"), 10, 0, db)
	require.NoError(t, err)
	var last [][]byte
	first := released(t, s, &last, 10)  // fits two of the three
	second := released(t, s, &last, 100) // should be just the remainder
	t.Logf("DA height 10 holds [aaaa bbbb cccc]; first batch=%v second batch=%v", first, second)
	require.Equal(t, []string{"aaaa", "bbbb"}, first)
	require.Greater(t, len(second), 1, "more than the one remaining transaction was released")
	require.Contains(t, second, "aaaa")
}
