package block

import (
	"context"
	"testing"
	"time"

	"github.com/stretchr/testify/mock"

	"github.com/evstack/ev-node/types"
)

// A backlog of DA-included heights is worked off inside one wake-up of the DA includer.
// With an execution layer that takes a while to finalise (and does not watch the context),
// a stop request must still end the loop promptly.
func TestReproC13R9_DAIncluderStopsPromptlyDuringBacklog(t *testing.T) {
	m, store, exec, _ := newTestManager(t)
	const start, backlog = uint64(4), 40
	m.daIncludedHeight.Store(start)
	for h := start + 1; h <= start+backlog; h++ {
		header, data := types.GetRandomBlock(h, 1, "testchain")
		m.headerCache.SetDAIncluded(header.Hash().String(), 1)
		m.dataCache.SetDAIncluded(data.DACommitment().String(), 1)
		store.On("GetBlockData", mock.Anything, h).Return(header, data, nil).Maybe()
	}
	store.On("GetBlockData", mock.Anything, start+backlog+1).Return(nil, nil, context.Canceled).Maybe()
	store.On("SetMetadata", mock.Anything, mock.Anything, mock.Anything).Return(nil).Maybe()
	exec.On("SetFinal", mock.Anything, mock.Anything).Run(func(mock.Arguments) { time.Sleep(50 * time.Millisecond) }).Return(nil).Maybe()

	ctx, cancel := context.WithCancel(context.Background())
	done := make(chan struct{})
	go func() { m.DAIncluderLoop(ctx, make(chan error, 1)); close(done) }()
	m.sendNonBlockingSignalToDAIncluderCh()
	time.Sleep(120 * time.Millisecond) // the includer is inside its backlog now
	stopAt := time.Now()
	cancel()
	select {
	case <-done:
	case <-time.After(5 * time.Second):
		t.Fatalf("DAIncluderLoop did not return within 5s of the stop request")
	}
	took := time.Since(stopAt)
	t.Logf("DAIncluderLoop returned %v after the stop request, DA-included height %d", took, m.GetDAIncludedHeight())
	if took > 300*time.Millisecond {
		t.Fatalf("DAIncluderLoop kept finalising for %v after the stop request (backlog of %d heights, 50ms each)", took, backlog)
	}
}
