package based_test

import (
	"context"
	"testing"
	"time"

	coresequencer "github.com/evstack/ev-node/core/sequencer"
)

// A carried-over transaction must survive a GetNextBatch call that fails on its arguments.
func TestRepro_C20R6_PoppedTxsLostOnErrorReturn(t *testing.T) {
	seq := newTestSequencer(t)
	seq.AddToPendingTxs([][]byte{[]byte("tx1")}, [][]byte{[]byte("id1")}, time.Now())
	// a malformed last-batch id (too short for SplitID) makes the call return an error
	_, err := seq.GetNextBatch(context.Background(), coresequencer.GetNextBatchRequest{Id: []byte("test1"), LastBatchData: [][]byte{[]byte("x")}})
	if err == nil {
		t.Fatal("expected an error for the malformed last batch data")
	}
	resp, err := seq.GetNextBatch(context.Background(), coresequencer.GetNextBatchRequest{Id: []byte("test1")})
	if err != nil {
		t.Fatal(err)
	}
	if resp == nil || len(resp.Batch.Transactions) != 1 || string(resp.Batch.Transactions[0]) != "tx1" {
		t.Fatalf("carried-over transaction tx1 was lost: got %+v", resp)
	}
}
