package file

import (
	"encoding/json"
	"os"
	"path/filepath"
	"testing"
)

// A key file whose nonce has the wrong length (truncated / corrupted) must fail cleanly.
func TestReproC19R7_TruncatedNonceDoesNotPanic(t *testing.T) {
	dir := t.TempDir()
	if _, err := CreateFileSystemSigner(dir, []byte("secret")); err != nil {
		t.Fatal(err)
	}
	path := filepath.Join(dir, "signer.json")
	raw, err := os.ReadFile(path)
	if err != nil {
		t.Fatal(err)
	}
	var m map[string]json.RawMessage
	if err := json.Unmarshal(raw, &m); err != nil {
		t.Fatal(err)
	}
	var nonce []byte
	if err := json.Unmarshal(m["nonce"], &nonce); err != nil {
		t.Fatal(err)
	}
	nonce = nonce[:len(nonce)-1]
	m["nonce"], _ = json.Marshal(nonce)
	out, _ := json.Marshal(m)
	if err := os.WriteFile(path, out, 0o600); err != nil {
		t.Fatal(err)
	}
	defer func() {
		if r := recover(); r != nil {
			t.Fatalf("loading a key file with a truncated nonce panicked: %v", r)
		}
	}()
	if _, err := LoadFileSystemSigner(dir, []byte("secret")); err == nil {
		t.Fatalf("a key file with a truncated nonce yielded a signer")
	}
	if _, err := ExportPrivateKey(dir, []byte("secret")); err == nil {
		t.Fatalf("export from a key file with a truncated nonce succeeded")
	}
}
